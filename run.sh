#!/bin/bash
# Entry point of every registered check.
#
#   run.sh check <ID> [quick|thorough]     build against /repo's working tree and run the check
#   run.sh replay <file>                   re-execute a replay file against /repo's working tree
#   run.sh selftest [determinism|race]     simulator self-tests
#
# Every invocation copies the current working tree of $VERIF_REPO (default /repo)
# into a fresh scratch directory, instruments that copy when the check needs the
# scheduler (C12, C20), builds the harness against it and removes the scratch
# directory on exit. Exit: 0 held, 1 VIOLATION, 2 build/harness trouble.
set -u
export GOFLAGS=-mod=mod GOPROXY=off GOSUMDB=off GOTOOLCHAIN=local
VERIF="$(cd "$(dirname "${BASH_SOURCE[0]}")" && pwd)"
REPO="${VERIF_REPO:-/repo}"
export VERIF_DIR="${VERIF_DIR:-$VERIF}"
MODE="${1:-}"
SCRATCH="$(mktemp -d /tmp/verif-scratch-XXXXXX)" || exit 2
trap 'rm -rf "$SCRATCH"' EXIT
export VERIF_SCRATCH="$SCRATCH"

fatal() { echo "FATAL $*"; exit 2; }

needs_race() {
	case "$1" in
	C12|C20|selftest-race) return 0 ;;
	esac
	return 1
}

build() { # $1 = race|plain
	mkdir -p "$SCRATCH/ggql/pkg/ggql" "$SCRATCH/bin" || fatal "mkdir"
	cp "$REPO/go.mod" "$SCRATCH/ggql/go.mod" || fatal "copy go.mod"
	for f in "$REPO"/pkg/ggql/*.go; do
		case "$f" in *_test.go) continue ;; esac
		cp "$f" "$SCRATCH/ggql/pkg/ggql/" || fatal "copy $f"
	done
	sed "s#=> /repo#=> $SCRATCH/ggql#" "$VERIF/go.mod" >"$SCRATCH/go.mod" || fatal "go.mod"
	[ -f "$VERIF/go.sum" ] && cp "$VERIF/go.sum" "$SCRATCH/go.sum"
	local flags=()
	if [ "$1" = race ]; then
		( cd "$VERIF" && go build -o "$SCRATCH/bin/instrument" ./tools/instrument ) >"$SCRATCH/build.log" 2>&1 || { cat "$SCRATCH/build.log"; fatal "cannot build the instrumenter"; }
		# generics in the generated helper need go >= 1.18; stay below 1.22 so that
		# loop variable semantics of the code under test do not change
		sed -i 's/^go 1\.[0-9]*$/go 1.18/' "$SCRATCH/ggql/go.mod"
		"$SCRATCH/bin/instrument" "$SCRATCH/ggql/pkg/ggql" >"$SCRATCH/instrument.json" 2>"$SCRATCH/instrument.err" || { cat "$SCRATCH/instrument.err"; fatal "instrumentation of the scratch copy failed"; }
		export VERIF_BUILD_INFO="$(cat "$SCRATCH/instrument.json")"
		python3 - "$SCRATCH/instrument.json" <<'PY'
import json, sys
d = json.load(open(sys.argv[1]))
o = d.get("other_sync_primitives_not_owned_by_simulator") or []
l = d.get("map_range_loops_not_rewritten") or []
if o:
    foreign = [x for x in o if not x.startswith("sync (handled)")]
    if foreign:
        print("WARNING the tree uses synchronisation / time / randomness the simulator does not own (a task blocked in one of them stalls the run -> exit 2, never a VIOLATION):", ", ".join(foreign))
    if len(foreign) != len(o):
        print("NOTE the tree starts goroutines / uses channels, sync.Once or sync.WaitGroup: scheduled cooperatively (go statements become tasks, sends and receives outside select poll); vector-clock check off, race detector on")
if l:
    print("WARNING map range loops left in Go's random order:", ", ".join(l))
if d.get("mutex_type_sites_rewritten", 0) == 0:
    print("WARNING no mutex found in the tree: lock scheduling points are gone")
PY
		flags=(-race -tags verifsim)
	fi
	( cd "$VERIF" && go build -modfile="$SCRATCH/go.mod" "${flags[@]}" -o "$SCRATCH/bin/verif" ./cmd/verif ) >"$SCRATCH/build.log" 2>&1 || { cat "$SCRATCH/build.log"; fatal "build of the harness against $REPO failed"; }
}

case "$MODE" in
check)
	ID="${2:?property id}"
	TIER="${3:-${VERIF_TIER:-quick}}"
	if needs_race "$ID"; then build race; else build plain; fi
	"$SCRATCH/bin/verif" check "$ID" --tier "$TIER" ${VERIF_WORKERS:+--workers "$VERIF_WORKERS"}
	exit $?
	;;
replay)
	FILE="${2:?replay file}"
	ID="$(python3 -c 'import json,sys; print(json.load(open(sys.argv[1]))["property"])' "$FILE")" || fatal "cannot read $FILE"
	if needs_race "$ID"; then build race; else build plain; fi
	if needs_race "$ID"; then
		export GORACE="halt_on_error=0 suppress_equal_stacks=0 suppress_equal_addresses=0 history_size=2 log_path=$SCRATCH/race"
	fi
	"$SCRATCH/bin/verif" replay "$FILE"
	exit $?
	;;
selftest)
	# Determinism self-test: the same VERIF_SEED values, executed in separate
	# processes, twice each, at GOMAXPROCS 1, 4 and 16, must give identical
	# run signatures, step counts, tape lengths and (non-race) verdicts.
	RUNS="${2:-30}"
	rc=0
	for kind in plain race; do
		build $kind
		if [ $kind = race ]; then
			GORACE="halt_on_error=0 suppress_equal_stacks=0 suppress_equal_addresses=0 exitcode=0 log_path=$SCRATCH/racecheck" "$SCRATCH/bin/verif" racecheck x || { echo "FATAL race oracle self-test failed"; rc=2; }
		fi
		if [ $kind = race ]; then ids="C12 C20"; export GORACE="halt_on_error=0 suppress_equal_stacks=0 suppress_equal_addresses=0 exitcode=0 log_path=$SCRATCH/race"; else ids="C03 C06 C11 C14 C16 C19"; fi
		for id in $ids; do
			for seed in 1 7; do
				ref=""
				for gmp in 1 4 16; do
					for rep in a b; do
						out="$SCRATCH/sigs.$id.$seed.$gmp.$rep"
						GOMAXPROCS=$gmp "$SCRATCH/bin/verif" sigs "$id" "$seed" "$RUNS" quick >"$out" 2>/dev/null || { echo "FATAL sigs $id failed"; rc=2; }
						if [ -z "$ref" ]; then ref="$out"; elif ! cmp -s "$ref" "$out"; then
							echo "NONDETERMINISTIC $id seed=$seed GOMAXPROCS=$gmp rep=$rep:"; diff "$ref" "$out" | head -6; rc=2
						fi
					done
				done
				echo "deterministic: $id seed=$seed runs=$RUNS x 6 processes (GOMAXPROCS 1/4/16, twice)"
			done
		done
		rm -rf "$SCRATCH/ggql" "$SCRATCH/bin"
	done
	exit $rc
	;;
*)
	echo "usage: run.sh check <ID> [quick|thorough] | replay <file> | selftest [what]"
	exit 2
	;;
esac
