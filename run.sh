#!/bin/bash
# Entry point of every registered check.
#
#   run.sh check <ID> [quick|thorough]     build against /repo's working tree and run the check
#   run.sh replay <file>                   re-execute a replay file against /repo's working tree
#   run.sh selftest [determinism|race]     simulator self-tests
#
# Every invocation copies the current working tree of $VERIF_REPO (default /repo)
# into a fresh scratch directory, instruments that copy when the check needs the
# scheduler (C12, C20), builds the harness against it and removes the scratch
# directory on exit. Exit: 0 held, 1 VIOLATION, 2 build/harness trouble.
set -u
export GOFLAGS=-mod=mod GOPROXY=off GOSUMDB=off GOTOOLCHAIN=local
VERIF="$(cd "$(dirname "${BASH_SOURCE[0]}")" && pwd)"
REPO="${VERIF_REPO:-/repo}"
export VERIF_DIR="${VERIF_DIR:-$VERIF}"
MODE="${1:-}"
SCRATCH="$(mktemp -d /tmp/verif-scratch-XXXXXX)" || exit 2
trap 'rm -rf "$SCRATCH"' EXIT
export VERIF_SCRATCH="$SCRATCH"

fatal() { echo "FATAL $*"; exit 2; }

needs_race() {
	case "$1" in
	C12|C20|selftest-race) return 0 ;;
	esac
	return 1
}

build() { # $1 = race|plain
	mkdir -p "$SCRATCH/ggql/pkg/ggql" "$SCRATCH/bin" || fatal "mkdir"
	cp "$REPO/go.mod" "$SCRATCH/ggql/go.mod" || fatal "copy go.mod"
	for f in "$REPO"/pkg/ggql/*.go; do
		case "$f" in *_test.go) continue ;; esac
		cp "$f" "$SCRATCH/ggql/pkg/ggql/" || fatal "copy $f"
	done
	sed "s#=> /repo#=> $SCRATCH/ggql#" "$VERIF/go.mod" >"$SCRATCH/go.mod" || fatal "go.mod"
	[ -f "$VERIF/go.sum" ] && cp "$VERIF/go.sum" "$SCRATCH/go.sum"
	local flags=()
	if [ "$1" = race ]; then
		( cd "$VERIF" && go build -o "$SCRATCH/bin/instrument" ./tools/instrument ) >"$SCRATCH/build.log" 2>&1 || { cat "$SCRATCH/build.log"; fatal "cannot build the instrumenter"; }
		# generics in the generated helper need go >= 1.18; stay below 1.22 so that
		# loop variable semantics of the code under test do not change
		sed -i 's/^go 1\.[0-9]*$/go 1.18/' "$SCRATCH/ggql/go.mod"
		"$SCRATCH/bin/instrument" "$SCRATCH/ggql/pkg/ggql" >"$SCRATCH/instrument.json" 2>"$SCRATCH/instrument.err" || { cat "$SCRATCH/instrument.err"; fatal "instrumentation of the scratch copy failed"; }
		export VERIF_BUILD_INFO="$(cat "$SCRATCH/instrument.json")"
		flags=(-race -tags verifsim)
	fi
	( cd "$VERIF" && go build -modfile="$SCRATCH/go.mod" "${flags[@]}" -o "$SCRATCH/bin/verif" ./cmd/verif ) >"$SCRATCH/build.log" 2>&1 || { cat "$SCRATCH/build.log"; fatal "build of the harness against $REPO failed"; }
}

case "$MODE" in
check)
	ID="${2:?property id}"
	TIER="${3:-${VERIF_TIER:-quick}}"
	if needs_race "$ID"; then build race; else build plain; fi
	"$SCRATCH/bin/verif" check "$ID" --tier "$TIER"
	exit $?
	;;
replay)
	FILE="${2:?replay file}"
	ID="$(python3 -c 'import json,sys; print(json.load(open(sys.argv[1]))["property"])' "$FILE")" || fatal "cannot read $FILE"
	if needs_race "$ID"; then build race; else build plain; fi
	if needs_race "$ID"; then
		export GORACE="halt_on_error=0 suppress_equal_stacks=0 suppress_equal_addresses=0 history_size=2 log_path=$SCRATCH/race"
	fi
	"$SCRATCH/bin/verif" replay "$FILE"
	exit $?
	;;
selftest)
	WHAT="${2:-determinism}"
	build race
	"$SCRATCH/bin/verif" selftest "$WHAT"
	exit $?
	;;
*)
	echo "usage: run.sh check <ID> [quick|thorough] | replay <file> | selftest [what]"
	exit 2
	;;
esac
