#!/bin/bash
# Run once after a fresh restore, offline: checks that the toolchain and the
# cached modules are usable and warms the build cache (plain and -race).
set -e
export GOFLAGS=-mod=mod GOPROXY=off GOSUMDB=off GOTOOLCHAIN=local
cd "$(dirname "${BASH_SOURCE[0]}")"
mkdir -p evidence replays bin
go build -o bin/instrument ./tools/instrument
go vet ./sim/... ./workload/... >/dev/null 2>&1 || true
go build -o /dev/null ./cmd/verif
go build -race -o /dev/null ./cmd/verif 2>/dev/null || go build -race -o /dev/null ./sim/tape
echo "setup ok"
