package sched

import (
	"fmt"
	"sync"

	"verif/sim/tape"
)

type coopMutex struct {
	mu sync.Mutex
	s  *Sched
}

func (m *coopMutex) Lock()   { m.s.Lock(1, "m", m.mu.TryLock) }
func (m *coopMutex) Unlock() { m.mu.Unlock(); m.s.Unlocked(1, "m") }

// scenario: three tasks; x is always accessed under the mutex, y is written
// without it by task 0 and read under it by the others when racy is true.
func scenario(seed uint64, racy bool) (races int, log int) {
	tp := tape.New(seed)
	s := New(tp, DrawConfig(tp))
	m := &coopMutex{s: s}
	x, y := 0, 0
	before := RaceErrors()
	for i := 0; i < 3; i++ {
		i := i
		s.Go(fmt.Sprintf("t%d", i), func(t *Task) {
			for k := 0; k < 3; k++ {
				s.Point(KCallout, fmt.Sprintf("dyn-%d-%d", i, k), "site")
				m.Lock()
				x++
				if racy && i != 0 {
					_ = y
				}
				m.Unlock()
				if racy && i == 0 {
					y++
				}
			}
		})
	}
	s.Run()
	if s.Deadlock != "" || s.Runaway {
		panic("unexpected " + s.Deadlock)
	}
	if x != 9 {
		panic("lost update under the cooperative mutex")
	}
	return RaceErrors() - before, len(s.Log)
}

// SelfCheck validates the race oracle itself: over n seeds, a correctly locked
// workload must produce no report at all (the scheduler's own hand-offs and
// bookkeeping are invisible), and the same workload with one unlocked access
// must be reported in most seeds (the hand-offs do not hide it).
func SelfCheck(n int) (cleanReports, racyHits int) {
	for seed := uint64(1); seed <= uint64(n); seed++ {
		r, _ := scenario(seed, false)
		cleanReports += r
		if r2, _ := scenario(seed, true); r2 > 0 {
			racyHits++
		}
	}
	return
}
