package sched

import (
	"testing"

	"verif/sim/tape"
)

func TestClean(t *testing.T) {
	for seed := uint64(1); seed <= 200; seed++ {
		if r, _ := scenario(seed, false); r != 0 {
			t.Fatalf("seed %d: correctly locked workload reported %d races (harness is not silent)", seed, r)
		}
	}
}

func TestRacy(t *testing.T) {
	if !RaceBuild {
		t.Skip("needs -race")
	}
	hit := 0
	for seed := uint64(1); seed <= 200; seed++ {
		r, _ := scenario(seed, true)
		if r > 0 {
			hit++
		}
		// determinism: same seed, same count
		r2, _ := scenario(seed, true)
		if (r > 0) != (r2 > 0) {
			t.Fatalf("seed %d: race verdict not repeatable: %d vs %d", seed, r, r2)
		}
	}
	t.Logf("racy workload reported in %d of 200 seeds", hit)
	if hit < 100 {
		t.Fatalf("unlocked access reported in only %d of 200 seeds", hit)
	}
}

func TestDeterministicLog(t *testing.T) {
	for seed := uint64(1); seed <= 50; seed++ {
		tp := tape.New(seed)
		s := New(tp, DrawConfig(tp))
		for i := 0; i < 3; i++ {
			s.Go("t", func(t *Task) {
				for k := 0; k < 4; k++ {
					s.Point(KCallout, "p", "s")
				}
			})
		}
		s.Run()
		tp2 := tape.Replay(tp.Rec())
		s2 := New(tp2, DrawConfig(tp2))
		for i := 0; i < 3; i++ {
			s2.Go("t", func(t *Task) {
				for k := 0; k < 4; k++ {
					s2.Point(KCallout, "p", "s")
				}
			})
		}
		s2.Run()
		if s.InterleavingHash() != s2.InterleavingHash() || len(s.Log) != len(s2.Log) {
			t.Fatalf("seed %d: replay diverged", seed)
		}
	}
}
