// Package sched is the deterministic scheduler of the simulator.
//
// Every simulated caller is a real goroutine (a Task). Exactly one task runs at
// any instant; all others are parked on their private wake channel. The
// controller (the goroutine that calls Run) owns the tape, all bookkeeping and
// the event log, and decides at every scheduling point which task proceeds.
//
// Hand-offs between tasks and controller are made invisible to the race
// detector (runtime.RaceDisable around every channel operation, inside
// //go:norace functions), so the only happens-before edges TSan learns are the
// ones created by the code under test (its own mutexes) plus task start and
// join. A conflicting pair of accesses that is not ordered by the library's own
// synchronisation is therefore reported whenever both execute in a run, however
// far apart the scheduler placed them - and the same tape reproduces it.
//
// Task-side functions touch no shared mutable state: they send a message to the
// controller and park. All bookkeeping lives in the controller.
package sched

import (
	"fmt"
	"sort"
	"strings"

	"verif/sim/tape"
)

// Kinds of scheduling points.
const (
	KLock    = "lock"
	KUnlock  = "unlock"
	KAccess  = "access"
	KCallout = "callout"
	KStart   = "start"
	KEnd     = "end"
	KStamp   = "stamp"
)

// Event is one entry of the global event log.
type Event struct {
	Seq  uint64
	Task int
	Kind string
	Obj  string
	Site string
}

type msgKind int

const (
	mYield msgKind = iota
	mLock
	mUnlock
	mStamp
	mChoose
	mTry
	mWait
	mSpawn
	mDone
)

type msg struct {
	kind  msgKind
	task  *Task
	key   uintptr
	ekind string
	obj   string
	site  string
	write bool
	// shared marks the read side of a reader/writer lock
	shared bool
}

// VCRace is a conflicting pair of accesses found by the deterministic
// vector-clock check over the library's own lock events.
type VCRace struct {
	Field    string
	Addr     uintptr
	PrevTask int
	PrevSite string
	PrevW    bool
	Task     int
	Site     string
	Write    bool
}

type vcCell struct {
	wTask  int
	wClock int
	wSite  string
	reads  map[int]int
	rSite  map[int]string
}

// Task is one simulated caller.
type Task struct {
	ID   int
	Name string
	fn   func(t *Task)
	s    *Sched

	wake   chan uint64   // controller -> task (carries the current seq)
	joined chan struct{} // closed (visibly) when the goroutine is finished

	// controller-side state
	done     bool
	held     []uintptr
	wantLock uintptr
	// wantShared: the pending acquisition is the read side of a RWMutex
	wantShared bool
	wantSeq    uint64 // order of the pending lock request among all requests
	// waiting: the task polls something the simulator does not own (channel,
	// WaitGroup) and found it not ready when progress stood at waitStamp
	waiting   bool
	waitStamp int
	waitWhat  string
	// Spawned: started by a go statement of the code under test
	Spawned bool
	prio    int
	started bool
	// Panic holds the recovered panic value of the task, if any.
	Panic interface{}
	// Points counts the scheduling points this task went through.
	Points int
}

// Policy of the picker.
type Policy int

const (
	PolRandom Policy = iota
	PolSticky
	PolPCT
)

// Config of one run.
type Config struct {
	Policy   Policy
	StickyN  int // sticky: switch with probability 1/StickyN
	PCTDepth int
	Fine     bool // yield at field-access points too
	MaxSteps int
	// Direct, when set, steers the run towards a potential deadlock found in an
	// earlier pass: task TaskA is held back when it holds the lock named First
	// and asks for the lock named Second, until task TaskB holds Second.
	Direct *Directive
}

// Directive is a potential deadlock: two tasks took the same two locks in
// opposite orders without a common guarding lock.
type Directive struct {
	TaskA  int
	First  string
	Second string
	TaskB  int
}

type lockEdge struct {
	from, to uintptr
	task     int
	guards   []uintptr
}

// DrawConfig draws a swarm configuration from the tape.
func DrawConfig(t *tape.Tape) Config {
	c := Config{MaxSteps: 20000}
	switch t.Draw(4) {
	case 0:
		c.Policy = PolRandom
	case 1, 2:
		c.Policy = PolSticky
		c.StickyN = []int{2, 5, 20}[t.Draw(3)]
	case 3:
		c.Policy = PolPCT
		c.PCTDepth = 1 + t.Draw(3)
	}
	c.Fine = t.Bool(1, 2)
	return c
}

func (c Config) String() string {
	p := "random"
	switch c.Policy {
	case PolSticky:
		p = fmt.Sprintf("sticky(1/%d)", c.StickyN)
	case PolPCT:
		p = fmt.Sprintf("pct(d=%d)", c.PCTDepth)
	}
	g := "coarse"
	if c.Fine {
		g = "fine"
	}
	return p + "/" + g
}

// Sched is one simulated execution.
type Sched struct {
	T     *tape.Tape
	Cfg   Config
	tasks []*Task
	ctrl  chan msg
	cur   *Task // read by the running task only (norace)

	// controller only
	Log      []Event
	seq      uint64
	owner    map[uintptr]*Task
	lockName map[uintptr]string
	Steps    int
	Switches int
	switchH  uint64
	pctChg   []int
	// MapChoices counts tape-decided map iteration orders.
	MapChoices int
	// Contended counts lock attempts that found the lock held by another task.
	Contended int
	// progress counts the scheduling steps in which a task did something other
	// than polling: a waiting task is not picked again before it moved on
	progress int
	vcN      int
	newTask  *Task
	// Unsupported is set when the code under test used a primitive the
	// simulator cannot model; the run has no verdict then.
	Unsupported string
	// Abandoned counts goroutines of the code under test that were still
	// waiting for something when every caller had returned.
	Abandoned int
	// WaitPolls / Spawns count polling yields and goroutines started by the code
	// under test.
	WaitPolls int
	Spawns    int
	// SharedOverlap counts read-lock requests made while another task already
	// held the read side of the same lock.
	SharedOverlap int
	edges         []lockEdge
	dirActive     bool
	// HeldBack counts scheduling decisions in which the directive kept TaskA waiting.
	HeldBack int
	// vector clocks (controller only)
	vc     [][]int
	lockVC map[uintptr][]int
	// readers counts the tasks holding the read side of a reader/writer lock;
	// readerVC joins the clocks of their releases (a writer synchronises with
	// all of them, a reader only with the last writer).
	readers  map[uintptr]int
	readerVC map[uintptr][]int
	cells    map[uintptr]*vcCell
	VCRaces  []VCRace
	// Outcome
	Deadlock string
	Runaway  bool
	wantN    uint64 // lock requests so far (orders waiting readers and writers)
	passive  int    // events that were logged without being scheduling points
	active   bool
}

// New makes a scheduler.
func New(t *tape.Tape, cfg Config) *Sched {
	return &Sched{T: t, Cfg: cfg, ctrl: make(chan msg), owner: map[uintptr]*Task{}, lockName: map[uintptr]string{}}
}

// Go registers a task; it starts running when Run picks it.
func (s *Sched) Go(name string, fn func(t *Task)) *Task {
	t := &Task{ID: len(s.tasks), Name: name, fn: fn, s: s, wake: make(chan uint64), joined: make(chan struct{})}
	s.tasks = append(s.tasks, t)
	return t
}

// Active reports whether Run is in progress (hooks fall through otherwise).
//
//go:norace
func (s *Sched) Active() bool { return s != nil && s.active }

// Current returns the running task (only meaningful from inside a task).
//
//go:norace
func (s *Sched) Current() *Task { return s.cur }

//go:norace
func (t *Task) body() {
	// Grow the stack once, before the run: a stack that grows during the run is
	// copied and the old memory handed to another goroutine, which would make
	// addresses of stack-allocated structures ambiguous for the vector-clock
	// check (the GC is off during a run, so stacks do not shrink either).
	growStack(64)
	raceDisable()
	<-t.wake
	raceEnable()
	func() {
		defer func() {
			if r := recover(); r != nil {
				t.Panic = r
			}
		}()
		t.fn(t)
	}()
	// visible join edge: everything the task did happens-before whoever waits
	// on joined (the controller, after the run).
	close(t.joined)
	raceDisable()
	t.s.ctrl <- msg{kind: mDone, task: t}
	raceEnable()
}

// handoff sends m to the controller and parks until woken. Returns the seq of
// the event the controller logged for m.
//
//go:norace
func (s *Sched) handoff(m msg) uint64 {
	t := s.cur
	m.task = t
	raceDisable()
	s.ctrl <- m
	seq := <-t.wake
	raceEnable()
	return seq
}

// Point is a plain scheduling point (call-outs into harness code, reader reads,
// field accesses).
//
//go:norace
func (s *Sched) Point(kind, obj, site string) uint64 {
	if !s.Active() {
		return 0
	}
	return s.handoff(msg{kind: mYield, ekind: kind, obj: obj, site: site})
}

// Access is a watched-field access (scheduling point in fine mode, always fed
// to the vector-clock check). addr 0 means "unknown address".
//
//go:norace
func (s *Sched) Access(field string, addr uintptr, write bool, site string) {
	if !s.Active() {
		return
	}
	s.handoff(msg{kind: mYield, ekind: KAccess, obj: field, site: site, key: addr, write: write})
}

// Choose asks the controller for a tape-drawn value in [0,n) without giving up
// the processor (map iteration order of the code under test).
//
//go:norace
func (s *Sched) Choose(n int) int {
	if !s.Active() || n <= 1 {
		return 0
	}
	return int(s.handoff(msg{kind: mChoose, key: uintptr(n)}))
}

// Stamp logs an event without giving up the processor and returns its global
// sequence number (used to stamp invoke/return of recorded histories).
//
//go:norace
func (s *Sched) Stamp(obj, site string) uint64 {
	if !s.Active() {
		return 0
	}
	return s.handoff(msg{kind: mStamp, ekind: KStamp, obj: obj, site: site})
}

// Lock is the cooperative acquire: the controller wakes the task only when the
// lock is free (all acquisitions go through it), so try must succeed.
//
//go:norace
func (s *Sched) Lock(key uintptr, name string, try func() bool) {
	s.handoff(msg{kind: mLock, key: key, ekind: KLock, obj: name})
	if !try() {
		panic("sched: invariant broken: lock believed free was held: " + name)
	}
}

// Unlocked is called after the real unlock.
//
//go:norace
func (s *Sched) Unlocked(key uintptr, name string) {
	s.handoff(msg{kind: mUnlock, key: key, ekind: KUnlock, obj: name})
}

// TryLock is sync.Mutex.TryLock (or TryRLock when shared) under the scheduler:
// a scheduling point, then the controller grants the lock if nobody holds it.
//
//go:norace
func (s *Sched) TryLock(key uintptr, name string, shared bool, try func() bool) bool {
	s.handoff(msg{kind: mYield, ekind: KCallout, obj: "trylock|" + name})
	if s.handoff(msg{kind: mTry, key: key, obj: name, shared: shared}) == 0 {
		return false
	}
	if !try() {
		panic("sched: invariant broken: lock granted to TryLock was held: " + name)
	}
	return true
}

// WaitPoint is called by a polling operation that found its channel /
// WaitGroup not ready.
//
//go:norace
func (s *Sched) WaitPoint(what string) {
	if !s.Active() {
		return
	}
	s.handoff(msg{kind: mWait, obj: what})
}

// NoteUnsupported ends the run without verdict.
//
//go:norace
func (s *Sched) NoteUnsupported(what string) {
	if s.Unsupported == "" {
		s.Unsupported = what
	}
}

// Spawn registers a goroutine started by the code under test as a task. The
// goroutine itself is started here, by the spawning task's goroutine, so that
// the race detector sees the happens-before edge of the go statement.
//
//go:norace
func (s *Sched) Spawn(fn func()) {
	if !s.Active() {
		go fn()
		return
	}
	s.handoff(msg{kind: mSpawn})
	t := s.newTask
	if t == nil {
		// the run has no verdict; fn is not started (an unscheduled goroutine
		// running instrumented code would talk to the controller out of turn)
		s.NoteUnsupported("more goroutines than the simulator has room for")
		return
	}
	t.fn = func(*Task) { fn() }
	go t.body()
}

// RLock is the cooperative acquire of the read side of a reader/writer lock:
// readers exclude writers, not each other.
//
//go:norace
func (s *Sched) RLock(key uintptr, name string, try func() bool) {
	s.handoff(msg{kind: mLock, key: key, ekind: KLock, obj: name, shared: true})
	if !try() {
		panic("sched: invariant broken: read lock believed free of writers was held: " + name)
	}
}

// RUnlocked is called after the real RUnlock.
//
//go:norace
func (s *Sched) RUnlocked(key uintptr, name string) {
	s.handoff(msg{kind: mUnlock, key: key, ekind: KUnlock, obj: name, shared: true})
}

//go:norace
func (s *Sched) log(t *Task, kind, obj, site string) uint64 {
	s.seq++
	s.Log = append(s.Log, Event{Seq: s.seq, Task: t.ID, Kind: kind, Obj: obj, Site: site})
	return s.seq
}

//go:norace
func (s *Sched) holdsNamed(t *Task, name string) bool {
	for _, h := range t.held {
		if s.lockName[h] == name {
			return true
		}
	}
	return false
}

//go:norace
func (s *Sched) runnable() []*Task {
	var out []*Task
	var heldBack *Task
	for _, t := range s.tasks {
		if t.done {
			continue
		}
		if t.waiting && t.waitStamp == s.progress {
			continue // nothing has moved since it last looked
		}
		if t.wantLock != 0 {
			if o := s.owner[t.wantLock]; o != nil {
				continue
			}
			if !t.wantShared && s.readers[t.wantLock] > 0 {
				continue
			}
			if t.wantShared && s.readers[t.wantLock] > 0 && s.writerWaitsBefore(t) {
				// sync.RWMutex: a Lock call that waits for the readers to leave
				// keeps new readers out - also a goroutine that already holds a
				// read lock and asks for it again
				continue
			}
			if d := s.Cfg.Direct; d != nil && s.dirActive && t.ID == d.TaskA && s.lockName[t.wantLock] == d.Second && s.holdsNamed(t, d.First) {
				b := s.tasks[d.TaskB]
				if !b.done && !s.holdsNamed(b, d.Second) {
					heldBack = t
					continue
				}
			}
		}
		out = append(out, t)
	}
	if heldBack != nil {
		if len(out) == 0 {
			// nobody else can move: the steering does not apply to this run
			s.dirActive = false
			out = append(out, heldBack)
		} else {
			s.HeldBack++
		}
	}
	return out
}

// writerWaitsBefore tells whether some other task asked for the exclusive lock
// that t wants to share before t did (and is still waiting for it).
//
//go:norace
func (s *Sched) writerWaitsBefore(t *Task) bool {
	for _, w := range s.tasks {
		if w != t && !w.done && w.wantLock == t.wantLock && !w.wantShared && w.wantSeq < t.wantSeq {
			return true
		}
	}
	return false
}

//go:norace
func (s *Sched) pick(run []*Task, prev *Task) *Task {
	if len(run) == 1 {
		return run[0]
	}
	// put the previous task first so that choice 0 means "continue": a shrunk
	// (zeroed) tape degenerates to run-to-completion schedules.
	hasPrev := false
	if prev != nil {
		for i, t := range run {
			if t == prev {
				run[0], run[i] = run[i], run[0]
				hasPrev = true
				break
			}
		}
	}
	switch s.Cfg.Policy {
	case PolSticky:
		if hasPrev {
			if s.T.Draw(s.Cfg.StickyN) == 0 {
				return run[0]
			}
			return run[1+s.T.Draw(len(run)-1)]
		}
	case PolPCT:
		for _, c := range s.pctChg {
			if c == s.Steps && hasPrev {
				// demote the running task below everybody else
				min := 0
				for _, t := range s.tasks {
					if t.prio < min {
						min = t.prio
					}
				}
				prev.prio = min - 1
			}
		}
		best := run[0]
		for _, t := range run[1:] {
			if t.prio > best.prio {
				best = t
			}
		}
		return best
	}
	return run[s.T.Draw(len(run))]
}

// Run executes all registered tasks to completion under the scheduler and
// returns when every task is finished, or on deadlock / step budget exhaustion
// (the remaining goroutines are abandoned, parked forever).
//
//go:norace
func (s *Sched) Run() {
	n := len(s.tasks)
	if s.Cfg.MaxSteps == 0 {
		s.Cfg.MaxSteps = 20000
	}
	if s.Cfg.Policy == PolPCT {
		// random distinct priorities, d change points
		perm := make([]int, n)
		for i := range perm {
			perm[i] = i
		}
		for i := n - 1; i > 0; i-- {
			j := s.T.Draw(i + 1)
			perm[i], perm[j] = perm[j], perm[i]
		}
		for i, t := range s.tasks {
			t.prio = perm[i] + 1
		}
		for i := 0; i < s.Cfg.PCTDepth; i++ {
			s.pctChg = append(s.pctChg, s.T.Draw(60*n+1))
		}
	}
	// room for goroutines the code under test starts itself
	s.vcN = n + 256
	s.vc = make([][]int, s.vcN)
	for i := range s.vc {
		s.vc[i] = make([]int, s.vcN)
		s.vc[i][i] = 1
	}
	s.lockVC = map[uintptr][]int{}
	s.readers = map[uintptr]int{}
	s.readerVC = map[uintptr][]int{}
	s.cells = map[uintptr]*vcCell{}
	s.active = true
	s.dirActive = s.Cfg.Direct != nil
	for _, t := range s.tasks {
		go t.body()
	}
	var prev *Task
	remaining := n // tasks not finished, spawned ones included
	callers := n   // caller tasks not finished
	for remaining > 0 && s.Unsupported == "" {
		run := s.runnable()
		if len(run) == 0 {
			if callers == 0 {
				// every caller has returned; what is left are goroutines of the
				// code under test that wait for something nobody will do any more
				// (a background worker, say): not a deadlock of the callers
				s.Abandoned = remaining
				break
			}
			s.Deadlock = s.waitGraph()
			break
		}
		if s.Steps >= s.Cfg.MaxSteps || s.Runaway {
			s.Runaway = true
			break
		}
		t := s.pick(run, prev)
		if t != prev {
			s.Switches++
			site := ""
			if len(s.Log) > 0 {
				site = s.Log[len(s.Log)-1].Site
				s.switchH = s.switchH*31 + hashStr(s.Log[len(s.Log)-1].Obj)
			}
			s.switchH = (s.switchH*1099511628211 ^ hashStr(site)) + uint64(t.ID)
		}
		if t.wantLock != 0 {
			// lock is free (runnable() checked): the task acquires it now
			if t.wantShared {
				s.readers[t.wantLock]++
			} else {
				s.owner[t.wantLock] = t
			}
			for i, h := range t.held {
				g := make([]uintptr, 0, len(t.held))
				g = append(g, t.held[:i]...)
				g = append(g, t.held[i+1:]...)
				s.edges = append(s.edges, lockEdge{from: h, to: t.wantLock, task: t.ID, guards: g})
			}
			t.held = append(t.held, t.wantLock)
			s.log(t, "acquire", s.lockName[t.wantLock], "")
			if lc := s.lockVC[t.wantLock]; lc != nil {
				for i, v := range lc {
					if v > s.vc[t.ID][i] {
						s.vc[t.ID][i] = v
					}
				}
			}
			if !t.wantShared {
				if lc := s.readerVC[t.wantLock]; lc != nil {
					for i, v := range lc {
						if v > s.vc[t.ID][i] {
							s.vc[t.ID][i] = v
						}
					}
				}
			}
			t.wantLock = 0
			t.wantShared = false
		}
		if !t.started {
			t.started = true
			s.log(t, KStart, t.Name, "")
		}
		s.cur = t
		prev = t
		s.Steps++
		t.Points++
		wasWaiting := t.waiting
		t.waiting = false
		if !wasWaiting {
			s.progress++
		}
		s.resume(t)
	inner:
		for {
			m := s.recv()
			switch m.kind {
			case mDone:
				m.task.done = true
				remaining--
				if !m.task.Spawned {
					callers--
				}
				s.progress++
				s.log(m.task, KEnd, m.task.Name, "")
				// a finished task still owning locks is a bug of the code under test
				break inner
			case mChoose:
				v := s.T.Draw(int(m.key))
				s.MapChoices++
				s.resumeWith(m.task, uint64(v))
			case mWait:
				m.task.waiting = true
				m.task.waitStamp = s.progress
				m.task.waitWhat = m.obj
				s.WaitPolls++
				break inner
			case mSpawn:
				s.newTask = nil
				if len(s.tasks) < s.vcN {
					nt := &Task{ID: len(s.tasks), Name: "g" + itoa(len(s.tasks)), s: s, wake: make(chan uint64), joined: make(chan struct{}), Spawned: true}
					// the new goroutine starts with everything its parent has seen
					copy(s.vc[nt.ID], s.vc[m.task.ID])
					s.vc[nt.ID][nt.ID] = 1
					s.vc[m.task.ID][m.task.ID]++
					s.tasks = append(s.tasks, nt)
					s.newTask = nt
					remaining++
					s.Spawns++
					s.log(m.task, "spawn", nt.Name, "")
				}
				s.progress++
				s.resume(m.task)
			case mTry:
				if m.obj == "" {
					if nm, ok := s.lockName[m.key]; ok {
						m.obj = nm
					} else {
						m.obj = "L" + itoa(len(s.lockName)+1)
					}
				}
				s.lockName[m.key] = m.obj
				free := s.owner[m.key] == nil && (m.shared || s.readers[m.key] == 0)
				if free && m.shared && s.readers[m.key] > 0 {
					// TryRLock fails while a writer waits for the readers to leave
					for _, w := range s.tasks {
						if w != m.task && !w.done && w.wantLock == m.key && !w.wantShared {
							free = false
						}
					}
				}
				if !free {
					s.log(m.task, "trylock-failed", m.obj, "")
					s.resumeWith(m.task, 0)
					continue
				}
				t := m.task
				if m.shared {
					s.readers[m.key]++
				} else {
					s.owner[m.key] = t
				}
				t.held = append(t.held, m.key)
				s.log(t, "acquire", m.obj, "trylock")
				if lc := s.lockVC[m.key]; lc != nil {
					for i, v := range lc {
						if v > s.vc[t.ID][i] {
							s.vc[t.ID][i] = v
						}
					}
				}
				if !m.shared {
					if lc := s.readerVC[m.key]; lc != nil {
						for i, v := range lc {
							if v > s.vc[t.ID][i] {
								s.vc[t.ID][i] = v
							}
						}
					}
				}
				s.resumeWith(t, 1)
			case mStamp:
				// logged, the task continues immediately
				s.log(m.task, m.ekind, m.obj, m.site)
				s.resume(m.task)
			case mLock:
				if m.obj == "" {
					// name locks by order of first use: deterministic, unlike addresses
					if nm, ok := s.lockName[m.key]; ok {
						m.obj = nm
					} else {
						m.obj = "L" + itoa(len(s.lockName)+1)
					}
				}
				s.lockName[m.key] = m.obj
				s.log(m.task, KLock, m.obj, m.site)
				if o := s.owner[m.key]; o != nil && o != m.task {
					s.Contended++
				}
				if m.shared && s.readers[m.key] > 0 {
					s.SharedOverlap++
				}
				m.task.wantLock = m.key
				m.task.wantShared = m.shared
				s.wantN++
				m.task.wantSeq = s.wantN
				break inner
			case mUnlock:
				if m.obj == "" {
					m.obj = s.lockName[m.key]
				}
				s.log(m.task, KUnlock, m.obj, m.site)
				if m.shared {
					if s.readers[m.key] > 0 {
						s.readers[m.key]--
					}
				} else if s.owner[m.key] == m.task {
					delete(s.owner, m.key)
				}
				for i := len(m.task.held) - 1; i >= 0; i-- {
					if m.task.held[i] == m.key {
						m.task.held = append(m.task.held[:i], m.task.held[i+1:]...)
						break
					}
				}
				if m.shared {
					// a reader's release is seen by the next writer only
					rc := s.readerVC[m.key]
					if rc == nil {
						rc = make([]int, s.vcN)
					}
					for i, v := range s.vc[m.task.ID] {
						if v > rc[i] {
							rc[i] = v
						}
					}
					s.readerVC[m.key] = rc
				} else {
					lc := make([]int, s.vcN)
					copy(lc, s.vc[m.task.ID])
					s.lockVC[m.key] = lc
				}
				s.vc[m.task.ID][m.task.ID]++
				break inner
			default:
				if m.ekind == KAccess {
					s.vcAccess(m)
				}
				if m.ekind == KAccess && !s.Cfg.Fine {
					// coarse granularity: field accesses are logged but are not
					// scheduling points
					s.log(m.task, m.ekind, m.obj, m.site)
					s.passive++
					if s.passive > 1000000 {
						// a task that goes through a million watched accesses
						// without reaching a scheduling point does not terminate
						// in any reasonable sense (work that grows without bound)
						s.Runaway = true
						break inner
					}
					s.resume(m.task)
					continue
				}
				s.log(m.task, m.ekind, m.obj, m.site)
				break inner
			}
		}
	}
	s.active = false
	if s.Deadlock == "" && !s.Runaway && s.Unsupported == "" && s.Abandoned == 0 {
		for _, t := range s.tasks {
			<-t.joined // visible join
		}
	}
}

//go:norace
func (s *Sched) vcAccess(m msg) {
	if m.key == 0 {
		return
	}
	t := m.task.ID
	c := s.cells[m.key]
	if c == nil {
		c = &vcCell{wTask: -1}
		s.cells[m.key] = c
	}
	report := func(pt int, ps string, pw bool) {
		if len(s.VCRaces) < 8 {
			s.VCRaces = append(s.VCRaces, VCRace{Field: m.obj, Addr: m.key, PrevTask: pt, PrevSite: ps, PrevW: pw, Task: t, Site: m.site, Write: m.write})
		}
	}
	if c.wTask >= 0 && c.wTask != t && s.vc[t][c.wTask] < c.wClock {
		report(c.wTask, c.wSite, true)
	}
	if m.write {
		for u := range s.tasks {
			if rc, ok := c.reads[u]; ok && u != t && s.vc[t][u] < rc {
				report(u, c.rSite[u], false)
			}
		}
		c.wTask, c.wClock, c.wSite = t, s.vc[t][t], m.site
		c.reads, c.rSite = nil, nil
	} else {
		if c.reads == nil {
			c.reads, c.rSite = map[int]int{}, map[int]string{}
		}
		c.reads[t] = s.vc[t][t]
		c.rSite[t] = m.site
	}
}

//go:norace
func (s *Sched) resumeWith(t *Task, v uint64) {
	raceDisable()
	t.wake <- v
	raceEnable()
}

//go:norace
func (s *Sched) resume(t *Task) {
	raceDisable()
	t.wake <- s.seq
	raceEnable()
}

//go:norace
func (s *Sched) recv() msg {
	raceDisable()
	m := <-s.ctrl
	raceEnable()
	return m
}

//go:norace
//go:noinline
func growStack(n int) byte {
	var pad [8192]byte
	pad[n%len(pad)] = byte(n)
	if n > 0 {
		return growStack(n-1) + pad[(n*7)%len(pad)]
	}
	return pad[0]
}

func itoa(n int) string {
	if n == 0 {
		return "0"
	}
	var b [20]byte
	i := len(b)
	for n > 0 {
		i--
		b[i] = byte('0' + n%10)
		n /= 10
	}
	return string(b[i:])
}

//go:norace
func hashStr(x string) uint64 {
	h := uint64(14695981039346656037)
	for i := 0; i < len(x); i++ {
		h ^= uint64(x[i])
		h *= 1099511628211
	}
	return h
}

// LockCycles returns the potential deadlocks of the run: pairs of lock-order
// edges a->b (task X) and b->a (task Y != X) that were not both taken under a
// common guarding lock. Locks are reported by name.
func (s *Sched) LockCycles() []Directive {
	var out []Directive
	seen := map[string]bool{}
	for _, e := range s.edges {
		for _, f := range s.edges {
			if e.task == f.task || e.from != f.to || e.to != f.from {
				continue
			}
			common := false
			for _, g := range e.guards {
				for _, h := range f.guards {
					if g == h {
						common = true
					}
				}
			}
			if common {
				continue
			}
			d := Directive{TaskA: e.task, First: s.lockName[e.from], Second: s.lockName[e.to], TaskB: f.task}
			k := fmt.Sprintf("%d/%s/%s/%d", d.TaskA, d.First, d.Second, d.TaskB)
			if !seen[k] {
				seen[k] = true
				out = append(out, d)
			}
		}
	}
	return out
}

// InterleavingHash identifies the interleaving by the (task, site) sequence at
// switch points.
func (s *Sched) InterleavingHash() uint64 { return s.switchH }

//go:norace
func (s *Sched) waitGraph() string {
	var parts []string
	for _, t := range s.tasks {
		if t.done {
			continue
		}
		if t.wantLock != 0 {
			o := s.owner[t.wantLock]
			on := "?"
			if o != nil {
				on = o.Name
			} else if s.readers[t.wantLock] > 0 {
				on = itoa(s.readers[t.wantLock]) + " reader(s)"
				if t.wantShared {
					on += " (a read lock, refused because a writer asked first and waits for the readers to leave)"
				}
			}
			parts = append(parts, fmt.Sprintf("%s waits for %s held by %s", t.Name, s.lockName[t.wantLock], on))
		} else if t.waiting {
			parts = append(parts, fmt.Sprintf("%s waits in a %s that nobody completes", t.Name, t.waitWhat))
		}
	}
	sort.Strings(parts)
	return strings.Join(parts, "; ")
}

// Trace renders the last n events of the log.
func (s *Sched) Trace(n int) []string {
	lo := 0
	if n > 0 && len(s.Log) > n {
		lo = len(s.Log) - n
	}
	out := make([]string, 0, len(s.Log)-lo)
	for _, e := range s.Log[lo:] {
		out = append(out, fmt.Sprintf("%d t%d %s %s %s", e.Seq, e.Task, e.Kind, e.Obj, e.Site))
	}
	return out
}

// Tasks returns the registered tasks.
func (s *Sched) Tasks() []*Task { return s.tasks }
