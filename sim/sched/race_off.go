//go:build !race

package sched

// RaceBuild reports whether the binary carries the race detector.
const RaceBuild = false

func raceDisable() {}
func raceEnable()  {}

// RaceErrors is the number of race reports so far in this process.
func RaceErrors() int { return 0 }
