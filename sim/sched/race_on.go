//go:build race

package sched

import "runtime"

// RaceBuild reports whether the binary carries the race detector.
const RaceBuild = true

//go:norace
func raceDisable() { runtime.RaceDisable() }

//go:norace
func raceEnable() { runtime.RaceEnable() }

// RaceErrors is the number of race reports so far in this process.
func RaceErrors() int { return runtime.RaceErrors() }
