// Package core is the run framework shared by all checks: a Check turns one tape
// into one simulated run; workers execute many runs over derived seeds; the
// master merges their summaries into the evidence file, prints KNOWN-FINDING and
// VIOLATION lines and decides the exit code.
package core

import (
	"encoding/json"
	"fmt"
	"hash/fnv"
	"os"
	"path/filepath"
	"sort"
	"strings"

	"verif/sim/tape"
)

// Violation is one observed breach of a property.
type Violation struct {
	Property string `json:"property"`
	// Class identifies the kind of breach; shrinking keeps the class fixed and
	// the master reports one replay per class.
	Class  string                 `json:"class"`
	Detail string                 `json:"detail"`
	Extra  map[string]interface{} `json:"extra,omitempty"`
	// Known is set by the framework when an open known finding matches.
	Known string `json:"known,omitempty"`
}

// RunOpt are per-run options.
type RunOpt struct {
	Tier string
	// WantSample asks the run to fill Result.Sample with a decoded description.
	WantSample bool
	// Replay is true when re-executing a stored tape (verbose decode wanted).
	Replay bool
}

// Result of one run.
type Result struct {
	Violations []Violation
	// Evaluations is the number of executions of the system under test this
	// run performed (1 for plain runs, N+1 for fault enumerations, ...).
	Evaluations int
	// Sig is a hash of what made this run what it is (interleaving at switch
	// points, fault positions, operation history); NonTrivial says whether it
	// counts for distinct_nontrivial.
	Sig        uint64
	NonTrivial bool
	// SubSigs are additional distinct non-trivial cases inside the run
	// (fault enumeration: one per fault site).
	SubSigs  []uint64
	Counters map[string]int
	Steps    int
	Sample   interface{}
	// Inconclusive counts sub-results that were neither pass nor fail
	// (porcupine Unknown, discarded baselines).
	Inconclusive int
	// Fatal is set for harness trouble (exit 2, never a VIOLATION).
	Fatal string
}

// Count increments a counter.
func (r *Result) Count(name string, n int) {
	if r.Counters == nil {
		r.Counters = map[string]int{}
	}
	r.Counters[name] += n
}

// Violate appends a violation.
func (r *Result) Violate(prop, class, detail string, extra map[string]interface{}) {
	if len(r.Violations) < 16 {
		r.Violations = append(r.Violations, Violation{Property: prop, Class: class, Detail: detail, Extra: extra})
	}
}

// Check is one property check.
type Check interface {
	ID() string
	Level() string // exploration | fault_enumeration
	Rule() string
	Assumptions() []string
	Components() map[string]string // component -> real | stub
	// NeedsRace says the check must run in the -race/instrumented binary.
	NeedsRace() bool
	Run(t *tape.Tape, opt RunOpt) Result
}

// CrashChecker is implemented by checks for which a run that kills or hangs
// the process is itself a violation of the property (C03). For all other checks
// such a run is harness trouble (exit 2).
type CrashChecker interface {
	// CrashIsViolation returns the property id the crash counts against.
	CrashIsViolation() string
	// RunTimeout is the wall-clock backstop for a single run.
	RunTimeout() float64
}

// HangAttributor is implemented by crash checkers whose harness has blocking
// machinery of its own (the scheduler of C12 / C20): a run that does not return
// counts against the property only when the goroutine dump of the confirming
// child process shows a goroutine that is running (not parked) with library
// code as its innermost non-standard-library frame; a child in which everything
// is parked is harness trouble.
type HangAttributor interface {
	HangNeedsLibraryFrame() bool
}

// SequentialLibrary is implemented by checks that run library code on one
// goroutine only: there a goroutine parked in a sync.Mutex / sync.RWMutex
// acquisition whose innermost frame outside the standard library is library
// code waits for a lock that nobody who could release it holds - a lock leaked
// on some exit path - and the run counts against the property as a deadlock.
type SequentialLibrary interface {
	LibraryRunsOnOneGoroutine() bool
}

// Hash64 hashes strings into a signature.
func Hash64(parts ...string) uint64 {
	h := fnv.New64a()
	for _, p := range parts {
		_, _ = h.Write([]byte(p))
		_, _ = h.Write([]byte{0})
	}
	return h.Sum64()
}

// ---------------------------------------------------------------------------
// Known findings

// Finding is one entry of /verif/known_findings.json.
type Finding struct {
	ID       string `json:"id"`
	Property string `json:"property"`
	Status   string `json:"status"` // open | fixed
	// Matcher names a classifier: "class:<exact class>" or "class-prefix:<p>".
	Matcher string `json:"matcher"`
	What    string `json:"what"`
	Example string `json:"example,omitempty"`
	Commit  string `json:"commit,omitempty"`
}

// Findings is the parsed file.
type Findings struct {
	Findings []Finding `json:"findings"`
}

// LoadFindings reads the known findings file; a missing file is empty.
func LoadFindings(path string) (*Findings, error) {
	var f Findings
	b, err := os.ReadFile(path)
	if err != nil {
		if os.IsNotExist(err) {
			return &f, nil
		}
		return nil, err
	}
	if err = json.Unmarshal(b, &f); err != nil {
		return nil, err
	}
	return &f, nil
}

// Match returns the open finding matching v, if any. Fixed entries never match.
func (f *Findings) Match(v *Violation) *Finding {
	for i := range f.Findings {
		kf := &f.Findings[i]
		if kf.Status != "open" || kf.Property != v.Property {
			continue
		}
		switch {
		case strings.HasPrefix(kf.Matcher, "class:"):
			if v.Class == strings.TrimPrefix(kf.Matcher, "class:") {
				return kf
			}
		case strings.HasPrefix(kf.Matcher, "class-prefix:"):
			if strings.HasPrefix(v.Class, strings.TrimPrefix(kf.Matcher, "class-prefix:")) {
				return kf
			}
		}
	}
	return nil
}

// ---------------------------------------------------------------------------
// Replay files

// ReplayFile is the on-disk form of a failing run.
type ReplayFile struct {
	Property  string      `json:"property"`
	Tier      string      `json:"tier"`
	Seed      uint64      `json:"seed"`
	RunIndex  uint64      `json:"run_index"`
	RunSeed   uint64      `json:"run_seed"`
	Tape      []uint64    `json:"tape"`
	OrigLen   int         `json:"original_tape_len"`
	Violation Violation   `json:"violation"`
	Decoded   interface{} `json:"decoded,omitempty"`
	// SeedOnly marks a run that killed or hung its process: there is no recorded
	// tape; the run is regenerated from RunSeed in a child process.
	SeedOnly bool `json:"seed_only,omitempty"`
}

// WriteReplay stores a replay file and returns its path.
func WriteReplay(dir string, rf *ReplayFile) (string, error) {
	if err := os.MkdirAll(dir, 0o755); err != nil {
		return "", err
	}
	name := fmt.Sprintf("%s-%d-%d-%016x.json", rf.Property, rf.Seed, rf.RunIndex, Hash64(rf.Violation.Class))
	p := filepath.Join(dir, name)
	b, err := json.MarshalIndent(rf, "", " ")
	if err != nil {
		return "", err
	}
	return p, os.WriteFile(p, b, 0o644)
}

// ReadReplay loads a replay file.
func ReadReplay(path string) (*ReplayFile, error) {
	b, err := os.ReadFile(path)
	if err != nil {
		return nil, err
	}
	var rf ReplayFile
	if err = json.Unmarshal(b, &rf); err != nil {
		return nil, err
	}
	return &rf, nil
}

// SortedKeys returns the keys of a counter map, sorted.
func SortedKeys(m map[string]int) []string {
	ks := make([]string, 0, len(m))
	for k := range m {
		ks = append(ks, k)
	}
	sort.Strings(ks)
	return ks
}
