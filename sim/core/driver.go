package core

import (
	"bufio"
	"bytes"
	"encoding/json"
	"fmt"
	"os"
	"os/exec"
	"path/filepath"
	"runtime/debug"
	"sort"
	"strconv"
	"strings"
	"sync"
	"syscall"
	"time"

	"verif/sim/tape"
)

// WorkerSummary is what one worker process reports on stdout (one JSON line
// prefixed with "SUMMARY ").
type WorkerSummary struct {
	Worker       int               `json:"worker"`
	Runs         int               `json:"runs"`
	Evaluations  int               `json:"evaluations"`
	Steps        int               `json:"steps"`
	NonTrivial   int               `json:"nontrivial_runs"`
	Sigs         []uint64          `json:"sigs"`
	Counters     map[string]int    `json:"counters"`
	Samples      []interface{}     `json:"samples"`
	Reported     []Reported        `json:"reported"`
	Known        map[string]int    `json:"known"`
	KnownExample map[string]string `json:"known_example"`
	Inconclusive int               `json:"inconclusive"`
	Fatal        string            `json:"fatal,omitempty"`
	WallS        float64           `json:"wall_s"`
	SelfTestRuns int               `json:"selftest_runs"`
}

// Reported is one violation with its replay file.
type Reported struct {
	Violation Violation `json:"violation"`
	Replay    string    `json:"replay"`
	RunIndex  uint64    `json:"run_index"`
	TapeLen   int       `json:"tape_len"`
	OrigLen   int       `json:"orig_len"`
}

// Budget of a tier.
type Budget struct {
	Secs      float64 // wall seconds of exploration per worker
	MaxRuns   int     // total runs over all workers (0 = unlimited)
	ShrinkTry int
}

// RunWatchdog is the wall-clock backstop for one run (including its
// enumeration passes). It is the only place a real clock influences a worker
// besides the exploration budget; it never influences a run's outcome.
var RunWatchdog = 120 * time.Second

func writeJournal(idx, rs uint64, tp []uint64) {
	j := os.Getenv("VERIF_JOURNAL")
	if j == "" {
		return
	}
	var b strings.Builder
	fmt.Fprintf(&b, "%d %d", idx, rs)
	for _, v := range tp {
		fmt.Fprintf(&b, " %d", v)
	}
	_ = os.WriteFile(j, []byte(b.String()+"\n"), 0o644)
}

func readJournal(path string) (idx, rs uint64, tp []uint64, ok bool) {
	b, err := os.ReadFile(path)
	if err != nil {
		return
	}
	f := strings.Fields(string(b))
	if len(f) < 2 {
		return
	}
	idx, _ = strconv.ParseUint(f[0], 10, 64)
	rs, _ = strconv.ParseUint(f[1], 10, 64)
	for _, x := range f[2:] {
		v, _ := strconv.ParseUint(x, 10, 64)
		tp = append(tp, v)
	}
	return idx, rs, tp, true
}

func scratchDir() string {
	if d := os.Getenv("VERIF_SCRATCH"); d != "" {
		return d
	}
	return os.TempDir()
}

// ConfirmCrash runs one run alone in a fresh child process. It returns a
// violation class and detail when the child dies or does not return in time,
// "" when it completes.
func ConfirmCrash(exe, id string, runSeed uint64, tp []uint64, tier string, timeoutS float64, extraEnv []string) (string, string) {
	return confirmCrash(exe, id, runSeed, tp, tier, timeoutS, extraEnv, false)
}

// busyLibraryFrame looks through a goroutine dump for a goroutine that is
// running or runnable and whose innermost frame outside the standard library
// belongs to the library under test; it returns that frame.
func busyLibraryFrame(dump string) string { return libraryFrame(dump, false) }

// libraryFrame is busyLibraryFrame; with blocked it also accepts a goroutine
// parked in a mutex acquisition (checks that run library code on one goroutine).
func libraryFrame(dump string, blocked bool) string {
	for _, blk := range strings.Split(dump, "\n\n") {
		lines := strings.Split(strings.TrimSpace(blk), "\n")
		if len(lines) < 2 || !strings.HasPrefix(lines[0], "goroutine ") {
			continue
		}
		busy := strings.Contains(lines[0], "[running") || strings.Contains(lines[0], "[runnable")
		parked := blocked && (strings.Contains(lines[0], "[sync.Mutex.Lock") || strings.Contains(lines[0], "[sync.RWMutex") || strings.Contains(lines[0], "[semacquire"))
		if !busy && !parked {
			continue
		}
		for _, ln := range lines[1:] {
			if strings.HasPrefix(ln, "\t") || strings.HasPrefix(ln, "created by ") {
				continue
			}
			fn := ln
			if i := strings.LastIndex(fn, "("); i > 0 {
				fn = fn[:i]
			}
			first := fn
			if i := strings.Index(first, "/"); i >= 0 {
				first = first[:i]
			}
			if !strings.Contains(first, ".") || strings.HasPrefix(fn, "runtime.") {
				// standard library (no dot in the first path element) or runtime
				if !strings.HasPrefix(fn, "github.com/") && !strings.HasPrefix(fn, "verif/") && !strings.HasPrefix(fn, "main.") {
					continue
				}
			}
			if strings.HasPrefix(fn, "github.com/uhn/ggql/pkg/ggql.") {
				if strings.Contains(fn, "Verif") || strings.Contains(fn, "verif") {
					break // the generated shim: the task is inside the simulator
				}
				return strings.TrimPrefix(fn, "github.com/uhn/ggql/pkg/ggql.")
			}
			break // the innermost non-library frame is harness code
		}
	}
	return ""
}

func confirmCrash(exe, id string, runSeed uint64, tp []uint64, tier string, timeoutS float64, extraEnv []string, attribute bool) (string, string) {
	return confirmCrashMode(exe, id, runSeed, tp, tier, timeoutS, extraEnv, attribute, false)
}

func confirmCrashMode(exe, id string, runSeed uint64, tp []uint64, tier string, timeoutS float64, extraEnv []string, attribute, sequential bool) (string, string) {
	args := []string{"one", id, strconv.FormatUint(runSeed, 10), tier}
	if len(tp) > 0 {
		var parts []string
		for _, v := range tp {
			parts = append(parts, strconv.FormatUint(v, 10))
		}
		args = append(args, strings.Join(parts, ","))
	}
	cmd := exec.Command(exe, args...)
	cmd.Env = append(os.Environ(), extraEnv...)
	if attribute {
		cmd.Env = append(cmd.Env, "GOTRACEBACK=crash")
	}
	for i, e := range cmd.Env {
		// (a child built with the race detector must not turn reported races
		// into a non-zero exit status: only a process that dies counts here)
		if strings.HasPrefix(e, "GORACE=") && !strings.Contains(e, "exitcode=") {
			cmd.Env[i] = e + " exitcode=0"
		}
	}
	var out bytes.Buffer
	cmd.Stdout = &bytes.Buffer{}
	cmd.Stderr = &out
	if err := cmd.Start(); err != nil {
		return "", ""
	}
	done := make(chan error, 1)
	go func() { done <- cmd.Wait() }()
	select {
	case err := <-done:
		if err == nil {
			return "", ""
		}
		txt := out.String()
		first := ""
		for _, ln := range strings.Split(txt, "\n") {
			if strings.HasPrefix(ln, "fatal error:") || strings.HasPrefix(ln, "panic:") || strings.Contains(ln, "stack overflow") {
				first = strings.TrimSpace(ln)
				break
			}
		}
		where := ""
		for _, ln := range strings.Split(txt, "\n") {
			if strings.Contains(ln, "github.com/uhn/ggql/pkg/ggql.") {
				where = strings.TrimSpace(ln)
				if i := strings.Index(where, "("); i > 0 && strings.HasSuffix(where, ")") {
					where = where[:strings.LastIndex(where, "(")]
				}
				break
			}
		}
		if len(txt) > 1500 {
			txt = txt[:1500] + "..."
		}
		cls := "process_crash"
		if strings.Contains(first, "stack overflow") || strings.Contains(txt, "stack overflow") {
			cls = "stack_overflow"
		}
		if where != "" {
			cls += ":" + strings.TrimPrefix(where, "github.com/uhn/ggql/pkg/ggql.")
		}
		return cls, fmt.Sprintf("run seed %d kills the process (%v): %s\n%s", runSeed, err, first, txt)
	case <-time.After(time.Duration((timeoutS + 10) * float64(time.Second))):
		if attribute {
			// ask the child for its goroutine stacks before it goes
			_ = cmd.Process.Signal(syscall.SIGQUIT)
			select {
			case <-done:
			case <-time.After(20 * time.Second):
				_ = cmd.Process.Kill()
				<-done
			}
			frame := libraryFrame(out.String(), sequential)
			if frame == "" {
				return "", "" // everything parked, or the harness is the one computing: not the library's doing
			}
			if busyLibraryFrame(out.String()) == "" {
				return "deadlock:" + frame, fmt.Sprintf("run seed %d does not return within %.0f s in a fresh process: the one goroutine that runs library code is parked in a mutex acquisition inside the library (innermost frame %s) - a lock that no exit path released (reproduce: verif one %s %d %s)", runSeed, timeoutS+10, frame, id, runSeed, tier)
			}
			return "hang:" + frame, fmt.Sprintf("run seed %d does not return within %.0f s in a fresh process, and the goroutine dump shows library code computing (innermost frame %s) rather than anything parked (reproduce: verif one %s %d %s)", runSeed, timeoutS+10, frame, id, runSeed, tier)
		}
		_ = cmd.Process.Kill()
		<-done
		return "hang", fmt.Sprintf("run seed %d does not return within %.0f s in a fresh process (reproduce: verif one %s %d %s)", runSeed, timeoutS+10, id, runSeed, tier)
	}
}

// VerifDir is where evidence/replays/known findings live.
func VerifDir() string {
	if d := os.Getenv("VERIF_DIR"); d != "" {
		return d
	}
	return "/verif"
}

// safeRun executes one run; a panic that escapes the check (the library
// panicked underneath an operation the check did not guard) is reported as a
// violation of the property being checked: an operation that crashes did not
// behave as the property says. The class keeps the panic message without
// numbers and the innermost pkg/ggql frame.
func safeRun(c Check, t *tape.Tape, opt RunOpt) (res Result) {
	defer func() {
		if r := recover(); r != nil {
			msg := fmt.Sprint(r)
			st := string(debug.Stack())
			frame := ""
			for _, ln := range strings.Split(st, "\n") {
				if strings.Contains(ln, "github.com/uhn/ggql/pkg/ggql.") {
					frame = strings.TrimSpace(ln)
					if i := strings.LastIndex(frame, "("); i > 0 {
						frame = frame[:i]
					}
					frame = strings.TrimPrefix(frame, "github.com/uhn/ggql/pkg/ggql.")
					break
				}
			}
			var b strings.Builder
			for _, ch := range msg {
				if ch < '0' || ch > '9' {
					b.WriteRune(ch)
				}
			}
			cls := b.String()
			if len(cls) > 80 {
				cls = cls[:80]
			}
			if len(st) > 2500 {
				st = st[:2500]
			}
			if frame == "" {
				res.Fatal = "panic in the harness (no pkg/ggql frame on the stack): " + msg + "\n" + st
				return
			}
			if res.Evaluations == 0 {
				res.Evaluations = 1
			}
			res.Violations = append(res.Violations, Violation{Property: c.ID(), Class: "panic:" + frame + ":" + cls,
				Detail: "the library panicked during the run: " + msg + "\n" + st})
		}
	}()
	return c.Run(t, opt)
}

func stableClasses(vs []Violation) string {
	var cs []string
	for _, v := range vs {
		if !strings.HasPrefix(v.Class, "race:") {
			cs = append(cs, v.Class)
		}
	}
	sort.Strings(cs)
	return strings.Join(cs, ";")
}

func unknownViolations(f *Findings, vs []Violation) (unk []Violation, known []Violation) {
	for i := range vs {
		v := vs[i]
		if kf := f.Match(&v); kf != nil {
			v.Known = kf.ID
			known = append(known, v)
		} else {
			unk = append(unk, v)
		}
	}
	return
}

// RunWorker executes the runs of one worker and prints its summary.
func RunWorker(c Check, tier string, seed uint64, worker, of int, b Budget) int {
	start := time.Now()
	sum := WorkerSummary{Worker: worker, Counters: map[string]int{}, Known: map[string]int{}, KnownExample: map[string]string{}}
	findings, err := LoadFindings(filepath.Join(VerifDir(), "known_findings.json"))
	if err != nil {
		sum.Fatal = "known_findings.json: " + err.Error()
	}
	sigs := map[uint64]struct{}{}
	seenClass := map[string]bool{}
	perWorkerMax := 0
	if b.MaxRuns > 0 {
		perWorkerMax = (b.MaxRuns + of - 1) / of
	}
	for i := 0; sum.Fatal == ""; i++ {
		if perWorkerMax > 0 && i >= perWorkerMax {
			break
		}
		if i > 0 && time.Since(start).Seconds() > b.Secs {
			break
		}
		idx := uint64(i*of + worker)
		rs := tape.Mix(seed, idx)
		tp := tape.New(rs)
		if os.Getenv("VERIF_TRACE") != "" {
			fmt.Fprintf(os.Stderr, "run idx=%d seed=%d\n", idx, rs)
		}
		opt := RunOpt{Tier: tier, WantSample: len(sum.Samples) < 2}
		// Watchdog: a run takes milliseconds; one that takes minutes is a hang in
		// the code under test (C03's business) or in the harness. It cannot be
		// interrupted, so the worker reports it and exits 2 (never a VIOLATION of
		// this property).
		writeJournal(idx, rs, nil)
		wdLimit := RunWatchdog
		if cc, ok := c.(CrashChecker); ok {
			wdLimit = time.Duration(cc.RunTimeout() * float64(time.Second))
		}
		wd := time.AfterFunc(wdLimit, func() {
			fmt.Printf("SUMMARY {\"worker\":%d,\"fatal\":\"run %d (run seed %d) did not return within %v: hang in the code under test or in the harness; reproduce with: verif one %s %d %s\"}\n",
				worker, idx, rs, wdLimit, c.ID(), rs, tier)
			os.Exit(2)
		})
		res := safeRun(c, tp, opt)
		wd.Stop()
		if res.Fatal != "" {
			sum.Fatal = fmt.Sprintf("run %d (seed %d): %s", idx, rs, res.Fatal)
			break
		}
		// determinism self-test on the first runs of every worker: the same
		// tape must give the same signature and the same verdict.
		if i < 2 {
			writeJournal(idx, rs, tp.Rec())
			res2 := safeRun(c, tape.Replay(tp.Rec()), RunOpt{Tier: tier})
			sum.SelfTestRuns++
			// (reports of the race detector are excluded: it can miss a race in one
			// of two identical executions, see DESIGN 3.4)
			if (res2.Sig != res.Sig || stableClasses(res2.Violations) != stableClasses(res.Violations) || res2.Evaluations != res.Evaluations) &&
				(len(res.Violations) > 0 || len(res2.Violations) > 0) {
				// The two executions of one tape differ AND at least one of them
				// violates the property: the code under test itself behaves
				// differently from execution to execution (Go map iteration order
				// inside the library decides which damage shows first). What was
				// observed is a violation all the same; it is reported, not turned
				// into harness trouble.
				sum.Counters["selftest_mismatch_with_violation"]++
				if len(res.Violations) == 0 {
					res = res2
				}
			} else if res2.Sig != res.Sig || stableClasses(res2.Violations) != stableClasses(res.Violations) || res2.Evaluations != res.Evaluations {
				sum.Fatal = fmt.Sprintf("determinism self-test failed on run %d (seed %d): sig %x vs %x, violations %q vs %q, evals %d vs %d",
					idx, rs, res.Sig, res2.Sig, stableClasses(res.Violations), stableClasses(res2.Violations), res.Evaluations, res2.Evaluations)
				break
			}
		}
		sum.Runs++
		sum.Evaluations += res.Evaluations
		sum.Steps += res.Steps
		sum.Inconclusive += res.Inconclusive
		for k, v := range res.Counters {
			sum.Counters[k] += v
		}
		if res.NonTrivial {
			sum.NonTrivial++
			sigs[res.Sig] = struct{}{}
		}
		for _, s := range res.SubSigs {
			sigs[s] = struct{}{}
		}
		if opt.WantSample && res.Sample != nil {
			sum.Samples = append(sum.Samples, res.Sample)
		}
		unk, known := unknownViolations(findings, res.Violations)
		for _, v := range known {
			sum.Known[v.Known]++
			if _, ok := sum.KnownExample[v.Known]; !ok {
				sum.KnownExample[v.Known] = fmt.Sprintf("run_seed=%d %s", rs, v.Detail)
			}
		}
		for _, v := range unk {
			if seenClass[v.Class] {
				sum.Counters["violations_same_class_skipped"]++
				continue
			}
			seenClass[v.Class] = true
			orig := tp.Rec()
			class := v.Class
			tries := 1
			if strings.HasPrefix(class, "race:") {
				tries = 3
			}
			fails := func(cand []uint64) bool {
				writeJournal(idx, rs, cand)
				for k := 0; k < tries; k++ {
					r := safeRun(c, tape.Replay(cand), RunOpt{Tier: tier})
					u, _ := unknownViolations(findings, r.Violations)
					for _, x := range u {
						if x.Class == class {
							return true
						}
					}
				}
				return false
			}
			min := orig
			if fails(orig) {
				min = tape.Shrink(orig, fails, b.ShrinkTry)
			} else {
				sum.Counters["violation_not_reproduced_on_replay"]++
			}
			final := safeRun(c, tape.Replay(min), RunOpt{Tier: tier, WantSample: true, Replay: true})
			fv := v
			fu, _ := unknownViolations(findings, final.Violations)
			for _, x := range fu {
				if x.Class == class {
					fv = x
					break
				}
			}
			rf := &ReplayFile{Property: c.ID(), Tier: tier, Seed: seed, RunIndex: idx, RunSeed: rs,
				Tape: min, OrigLen: len(orig), Violation: fv, Decoded: final.Sample}
			path, werr := WriteReplay(filepath.Join(VerifDir(), "replays"), rf)
			if werr != nil {
				sum.Fatal = "cannot write replay: " + werr.Error()
				break
			}
			sum.Reported = append(sum.Reported, Reported{Violation: fv, Replay: path, RunIndex: idx, TapeLen: len(min), OrigLen: len(orig)})
		}
		if len(sum.Reported) >= 8 {
			break
		}
	}
	for s := range sigs {
		sum.Sigs = append(sum.Sigs, s)
	}
	sort.Slice(sum.Sigs, func(i, j int) bool { return sum.Sigs[i] < sum.Sigs[j] })
	sum.WallS = time.Since(start).Seconds()
	out, _ := json.Marshal(&sum)
	w := bufio.NewWriter(os.Stdout)
	fmt.Fprintf(w, "SUMMARY %s\n", out)
	_ = w.Flush()
	if sum.Fatal != "" {
		return 2
	}
	return 0
}

// Evidence is the evidence file.
type Evidence struct {
	PropertyID  string                 `json:"property_id"`
	Tier        string                 `json:"tier"`
	Seed        int64                  `json:"seed"`
	Level       string                 `json:"level"`
	Coverage    map[string]interface{} `json:"coverage"`
	Assumptions []string               `json:"assumptions"`
	WallS       float64                `json:"wall_s"`
	Violations  int                    `json:"violations"`
}

// RunMaster spawns the workers, merges their summaries, writes evidence, prints
// the verdict lines and returns the exit code.
func RunMaster(c Check, tier string, seed uint64, workers int, b Budget, extraEnv []string, buildInfo map[string]interface{}) int {
	start := time.Now()
	exe, err := os.Executable()
	if err != nil {
		fmt.Println("FATAL cannot find own executable:", err)
		return 2
	}
	fmt.Printf("VERIF_SEED=%d property=%s tier=%s workers=%d budget_secs=%.0f max_runs=%d\n", seed, c.ID(), tier, workers, b.Secs, b.MaxRuns)
	sums := make([]*WorkerSummary, workers)
	errs := make([]string, workers)
	var wg sync.WaitGroup
	hardCap := time.Duration(b.Secs*6+300) * time.Second
	for w := 0; w < workers; w++ {
		wg.Add(1)
		go func(w int) {
			defer wg.Done()
			cmd := exec.Command(exe, "worker", c.ID(), "--tier", tier, "--seed", strconv.FormatUint(seed, 10),
				"--worker", strconv.Itoa(w), "--of", strconv.Itoa(workers))
			cmd.Env = append(os.Environ(), extraEnv...)
			journal := filepath.Join(scratchDir(), fmt.Sprintf("journal.%s.%d", c.ID(), w))
			cmd.Env = append(cmd.Env, fmt.Sprintf("VERIF_WORKER=%d", w), "GOMAXPROCS=2", "VERIF_JOURNAL="+journal)
			var stdout, stderr bytes.Buffer
			cmd.Stdout = &stdout
			cmd.Stderr = &stderr
			if err := cmd.Start(); err != nil {
				errs[w] = "start: " + err.Error()
				return
			}
			done := make(chan error, 1)
			go func() { done <- cmd.Wait() }()
			var werr error
			select {
			case werr = <-done:
			case <-time.After(hardCap):
				_ = cmd.Process.Kill()
				<-done
				errs[w] = fmt.Sprintf("worker %d exceeded hard cap %v (killed)", w, hardCap)
				return
			}
			for _, line := range strings.Split(stdout.String(), "\n") {
				if strings.HasPrefix(line, "SUMMARY ") {
					var s WorkerSummary
					if e := json.Unmarshal([]byte(line[len("SUMMARY "):]), &s); e == nil {
						sums[w] = &s
					} else {
						errs[w] = "bad summary: " + e.Error()
					}
				}
			}
			if sums[w] == nil && errs[w] == "" {
				tail := stderr.String()
				if len(tail) > 3000 {
					tail = tail[len(tail)-3000:]
				}
				errs[w] = fmt.Sprintf("worker %d produced no summary (exit: %v); stderr tail:\n%s", w, werr, tail)
			}
		}(w)
	}
	wg.Wait()
	fatal := false
	var crashReports []Reported
	if cc, ok := c.(CrashChecker); ok {
		// a worker that died or hung: re-run the journalled run alone in a fresh
		// child process; if that dies or hangs too it is a violation, not trouble.
		var cmu sync.Mutex
		var cwg sync.WaitGroup
		for w := range errs {
			dead := errs[w] != "" || (sums[w] != nil && strings.Contains(sums[w].Fatal, "did not return within"))
			if !dead {
				continue
			}
			w := w
			cwg.Add(1)
			go func() {
				defer cwg.Done()
				confirmOne(c, cc, exe, tier, seed, w, extraEnv, &cmu, &crashReports, errs, sums)
			}()
		}
		cwg.Wait()
	}
	for w, e := range errs {
		if e != "" {
			fmt.Printf("FATAL worker %d: %s\n", w, e)
			fatal = true
		}
	}
	total := WorkerSummary{Counters: map[string]int{}, Known: map[string]int{}, KnownExample: map[string]string{}}
	sigs := map[uint64]struct{}{}
	byClass := map[string]Reported{}
	for _, r := range crashReports {
		byClass[r.Violation.Class] = r
	}
	for _, s := range sums {
		if s == nil {
			continue
		}
		if s.Fatal != "" {
			fmt.Printf("FATAL worker %d: %s\n", s.Worker, s.Fatal)
			fatal = true
		}
		total.Runs += s.Runs
		total.Evaluations += s.Evaluations
		total.Steps += s.Steps
		total.NonTrivial += s.NonTrivial
		total.Inconclusive += s.Inconclusive
		total.SelfTestRuns += s.SelfTestRuns
		for k, v := range s.Counters {
			total.Counters[k] += v
		}
		for k, v := range s.Known {
			total.Known[k] += v
			if _, ok := total.KnownExample[k]; !ok {
				total.KnownExample[k] = s.KnownExample[k]
			}
		}
		for _, x := range s.Sigs {
			sigs[x] = struct{}{}
		}
		if len(total.Samples) < 3 {
			total.Samples = append(total.Samples, s.Samples...)
		}
		for _, r := range s.Reported {
			if old, ok := byClass[r.Violation.Class]; !ok || r.TapeLen < old.TapeLen {
				byClass[r.Violation.Class] = r
			}
		}
	}
	// keep one replay file per class (the shortest), remove the others
	keep := map[string]bool{}
	for _, r := range byClass {
		keep[r.Replay] = true
	}
	for _, s := range sums {
		if s == nil {
			continue
		}
		for _, r := range s.Reported {
			if !keep[r.Replay] {
				_ = os.Remove(r.Replay)
			}
		}
	}
	wall := time.Since(start).Seconds()
	findings, _ := LoadFindings(filepath.Join(VerifDir(), "known_findings.json"))
	knownOut := []map[string]interface{}{}
	if findings != nil {
		for _, kf := range findings.Findings {
			if kf.Property != c.ID() {
				continue
			}
			switch kf.Status {
			case "open":
				n := total.Known[kf.ID]
				if n > 0 {
					fmt.Printf("KNOWN-FINDING: property=%s %s [%s; hit %d times; e.g. %s]\n", c.ID(), kf.What, kf.ID, n, total.KnownExample[kf.ID])
				} else {
					fmt.Printf("KNOWN-FINDING: property=%s %s [%s; not hit in this run]\n", c.ID(), kf.What, kf.ID)
				}
				knownOut = append(knownOut, map[string]interface{}{"id": kf.ID, "status": "open", "hits": n, "what": kf.What})
			case "fixed":
				knownOut = append(knownOut, map[string]interface{}{"id": kf.ID, "status": "fixed", "commit": kf.Commit, "what": kf.What})
			}
		}
	}
	classes := make([]string, 0, len(byClass))
	for k := range byClass {
		classes = append(classes, k)
	}
	sort.Strings(classes)
	samples := total.Samples
	if len(samples) > 3 {
		samples = samples[:3]
	}
	if len(samples) == 0 {
		samples = []interface{}{"no sample captured"}
	}
	faults := map[string]int{}
	probes := map[string]int{}
	other := map[string]int{}
	for k, v := range total.Counters {
		switch {
		case strings.HasPrefix(k, "fault_"):
			faults[k] = v
		case strings.HasPrefix(k, "probe_"):
			probes[k] = v
		default:
			other[k] = v
		}
	}
	for _, k := range SortedKeys(probes) {
		if probes[k] == 0 {
			fmt.Printf("WARNING probe %s stayed at zero\n", k)
		}
	}
	cov := map[string]interface{}{
		"evaluations":               total.Evaluations,
		"distinct_nontrivial":       len(sigs),
		"rule":                      c.Rule(),
		"samples":                   samples,
		"simulated_runs":            total.Runs,
		"nontrivial_runs":           total.NonTrivial,
		"logical_steps":             total.Steps,
		"simulated_time":            "no clock or timer exists in pkg/ggql; coverage is reported as logical steps (scheduling points / operations / fault sites)",
		"runs_per_hour":             int(float64(total.Runs) / wall * 3600),
		"seeds_per_hour":            int(float64(total.Runs) / wall * 3600),
		"faults_fired":              faults,
		"probes":                    probes,
		"counters":                  other,
		"inconclusive":              total.Inconclusive,
		"components":                c.Components(),
		"known_findings":            knownOut,
		"determinism_selftest_runs": total.SelfTestRuns,
		"workers":                   workers,
		"exhaustive":                false,
	}
	for k, v := range buildInfo {
		cov[k] = v
	}
	vi := []map[string]interface{}{}
	for _, k := range classes {
		r := byClass[k]
		vi = append(vi, map[string]interface{}{"class": k, "detail": r.Violation.Detail, "replay": r.Replay})
	}
	if len(vi) > 0 {
		cov["violations_found"] = vi
	}
	ev := Evidence{PropertyID: c.ID(), Tier: tier, Seed: int64(seed), Level: c.Level(), Coverage: cov,
		Assumptions: c.Assumptions(), WallS: wall, Violations: len(classes)}
	if !fatal {
		if total.Evaluations == 0 || len(sigs) < 2 {
			fmt.Printf("FATAL nothing explored: evaluations=%d distinct=%d\n", total.Evaluations, len(sigs))
			fatal = true
		}
	}
	if !fatal {
		evb, _ := json.MarshalIndent(&ev, "", " ")
		_ = os.MkdirAll(filepath.Join(VerifDir(), "evidence"), 0o755)
		if err := os.WriteFile(filepath.Join(VerifDir(), "evidence", c.ID()+".json"), append(evb, '\n'), 0o644); err != nil {
			fmt.Println("FATAL cannot write evidence:", err)
			fatal = true
		}
	}
	fmt.Printf("SUMMARY property=%s runs=%d evaluations=%d distinct_nontrivial=%d steps=%d inconclusive=%d wall=%.1fs\n",
		c.ID(), total.Runs, total.Evaluations, len(sigs), total.Steps, total.Inconclusive, wall)
	for _, k := range SortedKeys(faults) {
		fmt.Printf("  %s=%d\n", k, faults[k])
	}
	for _, k := range SortedKeys(probes) {
		fmt.Printf("  %s=%d\n", k, probes[k])
	}
	for _, k := range classes {
		r := byClass[k]
		fmt.Printf("VIOLATION property=%s replay=%s class=%q detail=%q\n", c.ID(), r.Replay, k, oneLine(r.Violation.Detail, 400))
	}
	if len(classes) > 0 {
		return 1
	}
	if fatal {
		return 2
	}
	fmt.Printf("OK property=%s held on everything explored\n", c.ID())
	return 0
}

func confirmOne(c Check, cc CrashChecker, exe, tier string, seed uint64, w int, extraEnv []string, mu *sync.Mutex, crashReports *[]Reported, errs []string, sums []*WorkerSummary) {

	journal := filepath.Join(scratchDir(), fmt.Sprintf("journal.%s.%d", c.ID(), w))
	idx, rs, jt, ok := readJournal(journal)
	if !ok {
		return
	}
	attribute := false
	if ha, ok := c.(HangAttributor); ok {
		attribute = ha.HangNeedsLibraryFrame()
	}
	sequential := false
	if sl, ok := c.(SequentialLibrary); ok {
		sequential = sl.LibraryRunsOnOneGoroutine()
	}
	class, detail := confirmCrashMode(exe, c.ID(), rs, jt, tier, cc.RunTimeout(), extraEnv, attribute, sequential)
	if class == "" {
		return // not reproduced: stays harness trouble
	}
	rf := &ReplayFile{Property: cc.CrashIsViolation(), Tier: tier, Seed: seed, RunIndex: idx, RunSeed: rs, SeedOnly: true, Tape: jt,
		Violation: Violation{Property: cc.CrashIsViolation(), Class: class, Detail: detail}}
	path, werr := WriteReplay(filepath.Join(VerifDir(), "replays"), rf)
	if werr == nil {
		mu.Lock()
		*crashReports = append(*crashReports, Reported{Violation: rf.Violation, Replay: path, RunIndex: idx})
		errs[w] = ""
		if sums[w] != nil {
			sums[w].Fatal = ""
		}
		mu.Unlock()
	}
}

func oneLine(s string, max int) string {
	s = strings.ReplaceAll(s, "\n", "\\n")
	if len(s) > max {
		s = s[:max] + "..."
	}
	return s
}

// RunReplay re-executes a replay file; exit 1 when the violation reproduces.
func RunReplay(c Check, rf *ReplayFile) int {
	if rf.SeedOnly {
		exe, _ := os.Executable()
		tout := 30.0
		if cc, ok := c.(CrashChecker); ok {
			tout = cc.RunTimeout()
		}
		attribute := false
		if ha, ok := c.(HangAttributor); ok {
			attribute = ha.HangNeedsLibraryFrame()
		}
		sequential := false
		if sl, ok := c.(SequentialLibrary); ok {
			sequential = sl.LibraryRunsOnOneGoroutine()
		}
		class, detail := confirmCrashMode(exe, c.ID(), rf.RunSeed, rf.Tape, rf.Tier, tout, nil, attribute, sequential)
		if class != "" {
			fmt.Printf("REPRODUCED class=%q\n%s\nVIOLATION property=%s replay=(this file)\n", class, detail, rf.Property)
			return 1
		}
		fmt.Println("NOT REPRODUCED: the run completes on this tree")
		return 0
	}
	fmt.Printf("replaying property=%s seed=%d run_index=%d tape_len=%d (original %d)\n", rf.Property, rf.Seed, rf.RunIndex, len(rf.Tape), rf.OrigLen)
	res := safeRun(c, tape.Replay(rf.Tape), RunOpt{Tier: rf.Tier, WantSample: true, Replay: true})
	if res.Fatal != "" {
		fmt.Println("FATAL", res.Fatal)
		return 2
	}
	if strings.HasPrefix(rf.Violation.Class, "race:") {
		// the schedule replays exactly; the race detector itself may miss the pair
		// in a given execution (DESIGN 3.4), so the same tape is executed again a
		// few times before giving up.
		for try := 0; try < 8; try++ {
			hit := false
			for _, v := range res.Violations {
				if v.Class == rf.Violation.Class {
					hit = true
				}
			}
			if hit {
				break
			}
			res = safeRun(c, tape.Replay(rf.Tape), RunOpt{Tier: rf.Tier, WantSample: true, Replay: true})
		}
	}
	if res.Sample != nil {
		b, _ := json.MarshalIndent(res.Sample, "", " ")
		fmt.Printf("decoded run:\n%s\n", b)
	}
	for _, v := range res.Violations {
		if v.Class == rf.Violation.Class {
			fmt.Printf("REPRODUCED class=%q\n%s\n", v.Class, v.Detail)
			fmt.Printf("VIOLATION property=%s replay=%s\n", rf.Property, "(this file)")
			return 1
		}
	}
	for _, v := range res.Violations {
		fmt.Printf("different violation: class=%q %s\n", v.Class, oneLine(v.Detail, 300))
	}
	fmt.Println("NOT REPRODUCED: the recorded violation class did not occur on this tree")
	return 0
}
