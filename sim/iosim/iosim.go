// Package iosim holds the simulated I/O seams: a faulty reader, an in-memory
// fs.FS with per-file faults and a faulty writer. All of them are driven by an
// explicit plan (decided by the tape in the caller); none draws randomness or
// reads a clock.
package iosim

import (
	"errors"
	"fmt"
	"io"
	"io/fs"
	"path"
	"sort"
	"strings"
	"time"
)

// ErrInjected is the error all injected faults return.
var ErrInjected = errors.New("iosim: injected I/O fault")

// TimeoutError is the injected error of plans with Timeout set: it wraps
// ErrInjected and looks like an expired deadline (net.Error).
type TimeoutError struct{}

func (TimeoutError) Error() string   { return "iosim: injected I/O fault: i/o timeout" }
func (TimeoutError) Timeout() bool   { return true }
func (TimeoutError) Temporary() bool { return true }
func (TimeoutError) Unwrap() error   { return ErrInjected }

// Kind of reader fault.
type Kind int

const (
	None        Kind = iota
	ErrAt            // after K bytes: (0, ErrInjected), sticky
	ErrWithByte      // the K-th byte is delivered together with ErrInjected, sticky afterwards
	Transient        // after K bytes: one (0, ErrInjected), then the stream continues
	Truncate         // clean io.EOF after K bytes (torn document)
	EOFWithByte      // last byte is delivered together with io.EOF (HTTP body behaviour)
	ZeroReads        // after K bytes: M times (0, nil), then the stream continues
	NumKinds
)

func (k Kind) String() string {
	return [...]string{"none", "err_at", "err_with_byte", "transient", "truncate", "eof_with_byte", "zero_reads", "?"}[k]
}

// Plan is one reader fault.
type Plan struct {
	Kind Kind
	K    int // byte offset
	M    int // repeat count for ZeroReads
	// Timeout makes the injected error a net.Error-style value whose Timeout()
	// and Temporary() report true (an expired read deadline keeps failing that
	// way: "temporary" does not mean the next Read succeeds).
	Timeout bool
	// ZeroEach makes the reader answer (0, nil) once before every byte from
	// offset K on (legal for an io.Reader, if discouraged: the stream keeps
	// making progress).
	ZeroEach bool
	// Unexpected makes the injected error io.ErrUnexpectedEOF (an EOF-like
	// error that is not io.EOF: a consumer that treats it as the normal end
	// must not go on reading).
	Unexpected bool
}

func (p Plan) String() string {
	if p.Kind == None && !p.ZeroEach {
		return "none"
	}
	if p.Kind == ZeroReads {
		return fmt.Sprintf("%s@%d x%d", p.Kind, p.K, p.M)
	}
	if p.Timeout {
		return fmt.Sprintf("%s@%d (timeout error)", p.Kind, p.K)
	}
	if p.Unexpected {
		return fmt.Sprintf("%s@%d (io.ErrUnexpectedEOF)", p.Kind, p.K)
	}
	if p.ZeroEach {
		return fmt.Sprintf("zero-length read before every byte from %d", p.K)
	}
	return fmt.Sprintf("%s@%d", p.Kind, p.K)
}

// ReadBudgetExceeded is the panic value raised when the consumer keeps calling
// Read after the budget is used up: a deterministic livelock sentinel.
type ReadBudgetExceeded struct{ Calls int }

func (r *Reader) err() error {
	if r.Plan.Timeout {
		return TimeoutError{}
	}
	if r.Plan.Unexpected {
		return io.ErrUnexpectedEOF
	}
	return ErrInjected
}

// Reader is an io.Reader over Data with one fault Plan.
type Reader struct {
	Data []byte
	Plan Plan
	// Chunk limits how many bytes a single Read returns (0 = as many as fit).
	Chunk int
	// Budget is the maximum number of Read calls (0 = 4*len+64).
	Budget int

	pos       int
	calls     int
	fired     bool
	zeros     int
	stickyErr bool
	zeroGiven bool
	// Delivered collects the bytes actually handed to the consumer.
	Delivered []byte
	// Fired reports whether the fault was actually reached.
	Fired bool
	// CallsAfterErr counts Read calls made after a sticky error was returned.
	CallsAfterErr int
	// OnRead, when set, is called at the start of every Read (scheduling point).
	OnRead func()
}

// Closer makes a Reader an io.ReadCloser whose Close fails (a request body, a
// file on a file system that goes away): a consumer that closes what it reads
// has one more place where an error can come from.
type Closer struct {
	*Reader
	Err   error
	Calls int
}

// Close implements io.Closer.
func (c *Closer) Close() error {
	c.Calls++
	return c.Err
}

// NewReader builds a reader.
func NewReader(data []byte, plan Plan) *Reader {
	return &Reader{Data: data, Plan: plan}
}

func (r *Reader) Read(p []byte) (int, error) {
	if r.OnRead != nil {
		r.OnRead()
	}
	r.calls++
	budget := r.Budget
	if budget == 0 {
		budget = 4*len(r.Data) + 64
		if r.Plan.ZeroEach {
			budget += 2 * len(r.Data)
		}
	}
	if r.calls > budget {
		panic(ReadBudgetExceeded{Calls: r.calls})
	}
	if len(p) == 0 {
		return 0, nil
	}
	if r.stickyErr {
		r.CallsAfterErr++
		return 0, r.err()
	}
	end := len(r.Data)
	if r.Plan.Kind == Truncate && r.Plan.K < end {
		end = r.Plan.K
	}
	if r.Plan.ZeroEach && r.pos >= r.Plan.K && r.pos < end && !r.zeroGiven {
		r.zeroGiven = true
		r.Fired = true
		return 0, nil
	}
	r.zeroGiven = false
	// fault point reached?
	switch r.Plan.Kind {
	case ErrAt:
		if r.pos >= r.Plan.K {
			r.Fired, r.stickyErr = true, true
			return 0, r.err()
		}
	case Transient:
		if !r.fired && r.pos >= r.Plan.K {
			r.fired, r.Fired = true, true
			return 0, r.err()
		}
	case ZeroReads:
		if r.pos >= r.Plan.K && r.zeros < r.Plan.M {
			r.zeros++
			r.Fired = true
			return 0, nil
		}
	}
	if r.pos >= end {
		if r.Plan.Kind == Truncate {
			r.Fired = true
		}
		return 0, io.EOF
	}
	n := len(p)
	if r.Chunk > 0 && n > r.Chunk {
		n = r.Chunk
	}
	if r.pos+n > end {
		n = end - r.pos
	}
	// do not read across the fault point
	switch r.Plan.Kind {
	case ErrAt, Transient, ZeroReads:
		if r.pos < r.Plan.K && r.pos+n > r.Plan.K {
			n = r.Plan.K - r.pos
		}
	case ErrWithByte:
		if r.pos <= r.Plan.K && r.pos+n > r.Plan.K {
			n = r.Plan.K - r.pos + 1
			copy(p, r.Data[r.pos:r.pos+n])
			r.Delivered = append(r.Delivered, r.Data[r.pos:r.pos+n]...)
			r.pos += n
			r.Fired, r.stickyErr = true, true
			return n, r.err()
		}
	}
	copy(p, r.Data[r.pos:r.pos+n])
	r.Delivered = append(r.Delivered, r.Data[r.pos:r.pos+n]...)
	r.pos += n
	if r.Plan.Kind == EOFWithByte && r.pos >= end {
		r.Fired = true
		return n, io.EOF
	}
	return n, nil
}

// Calls is the number of Read calls made.
func (r *Reader) Calls() int { return r.calls }

// ---------------------------------------------------------------------------
// FS

// FileFault is a fault on one file of the simulated file system.
type FileFault struct {
	OpenErr  bool
	CloseErr bool
	Read     Plan
	Chunk    int
}

// FS is an in-memory fs.FS. Files are served from Files; Faults are per name.
type FS struct {
	Files  map[string][]byte
	Faults map[string]FileFault
	// Opened logs the order in which files were opened (observed, not
	// controlled: ParseFS iterates a Go map).
	Opened []string
	// Fired counts faults that were actually hit, by kind name.
	Fired map[string]int
}

// NewFS builds an empty FS.
func NewFS() *FS {
	return &FS{Files: map[string][]byte{}, Faults: map[string]FileFault{}, Fired: map[string]int{}}
}

type dirEntry struct {
	name string
	dir  bool
}

func (d dirEntry) Name() string { return d.name }
func (d dirEntry) IsDir() bool  { return d.dir }
func (d dirEntry) Type() fs.FileMode {
	if d.dir {
		return fs.ModeDir
	}
	return 0
}
func (d dirEntry) Info() (fs.FileInfo, error) { return fileInfo{name: d.name, dir: d.dir}, nil }

type fileInfo struct {
	name string
	size int64
	dir  bool
}

func (fi fileInfo) Name() string { return fi.name }
func (fi fileInfo) Size() int64  { return fi.size }
func (fi fileInfo) Mode() fs.FileMode {
	if fi.dir {
		return fs.ModeDir | 0o555
	}
	return 0o444
}
func (fi fileInfo) ModTime() time.Time { return time.Time{} }
func (fi fileInfo) IsDir() bool        { return fi.dir }
func (fi fileInfo) Sys() interface{}   { return nil }

type dirFile struct {
	fsys *FS
	read bool
	// prefix is "" for the root directory, "core/" for the directory core
	// (directories exist by way of the file names that start with them)
	prefix string
}

func (d *dirFile) Stat() (fs.FileInfo, error) { return fileInfo{name: ".", dir: true}, nil }
func (d *dirFile) Read([]byte) (int, error)   { return 0, errors.New("is a directory") }
func (d *dirFile) Close() error               { return nil }
func (d *dirFile) ReadDir(n int) ([]fs.DirEntry, error) {
	if d.read {
		if n > 0 {
			return nil, io.EOF
		}
		return nil, nil
	}
	d.read = true
	isDir := map[string]bool{}
	names := make([]string, 0, len(d.fsys.Files))
	for k := range d.fsys.Files {
		if !strings.HasPrefix(k, d.prefix) {
			continue
		}
		rest := k[len(d.prefix):]
		if i := strings.Index(rest, "/"); i >= 0 {
			rest = rest[:i]
			if isDir[rest] {
				continue
			}
			isDir[rest] = true
		}
		names = append(names, rest)
	}
	sort.Strings(names)
	out := make([]fs.DirEntry, 0, len(names))
	for _, k := range names {
		out = append(out, dirEntry{name: k, dir: isDir[k]})
	}
	return out, nil
}

type file struct {
	fsys  *FS
	name  string
	r     *Reader
	fault FileFault
}

func (f *file) Stat() (fs.FileInfo, error) {
	return fileInfo{name: f.name, size: int64(len(f.r.Data))}, nil
}

func (f *file) Read(p []byte) (int, error) {
	n, err := f.r.Read(p)
	if err != nil && err != io.EOF {
		f.fsys.Fired["fs_read_"+f.fault.Read.Kind.String()]++
	}
	return n, err
}

func (f *file) Close() error {
	if f.fault.CloseErr {
		f.fsys.Fired["fs_close_err"]++
		return ErrInjected
	}
	return nil
}

// Open implements fs.FS.
func (s *FS) Open(name string) (fs.File, error) {
	if name == "." {
		return &dirFile{fsys: s}, nil
	}
	if !fs.ValidPath(name) {
		return nil, &fs.PathError{Op: "open", Path: name, Err: fs.ErrInvalid}
	}
	data, ok := s.Files[path.Clean(name)]
	if !ok {
		for k := range s.Files {
			if strings.HasPrefix(k, path.Clean(name)+"/") {
				return &dirFile{fsys: s, prefix: path.Clean(name) + "/"}, nil
			}
		}
		return nil, &fs.PathError{Op: "open", Path: name, Err: fs.ErrNotExist}
	}
	s.Opened = append(s.Opened, name)
	ff := s.Faults[name]
	if ff.OpenErr {
		s.Fired["fs_open_err"]++
		return nil, &fs.PathError{Op: "open", Path: name, Err: ErrInjected}
	}
	r := NewReader(data, ff.Read)
	r.Chunk = ff.Chunk
	r.Budget = 8*len(data) + 256
	return &file{fsys: s, name: name, r: r, fault: ff}, nil
}

// ---------------------------------------------------------------------------
// Writer

// Writer fails at the FailAt-th Write call (1-based; 0 = never). Short makes it
// a short write with a nil error instead of an error.
type Writer struct {
	FailAt int
	Short  bool
	Buf    []byte
	Calls  int
	Fired  bool
	// CallsAfterErr counts Write calls made after the failure was returned.
	CallsAfterErr int
	// Budget bounds the number of Write calls (0 = 1<<20).
	Budget int
}

// WriteBudgetExceeded is the livelock sentinel of Writer.
type WriteBudgetExceeded struct{ Calls int }

func (w *Writer) Write(p []byte) (int, error) {
	w.Calls++
	b := w.Budget
	if b == 0 {
		b = 1 << 20
	}
	if w.Calls > b {
		panic(WriteBudgetExceeded{Calls: w.Calls})
	}
	if w.Fired && !w.Short {
		w.CallsAfterErr++
		return 0, ErrInjected
	}
	if w.FailAt > 0 && w.Calls == w.FailAt {
		w.Fired = true
		if w.Short {
			n := len(p) / 2
			w.Buf = append(w.Buf, p[:n]...)
			return n, nil
		}
		return 0, ErrInjected
	}
	w.Buf = append(w.Buf, p...)
	return len(p), nil
}
