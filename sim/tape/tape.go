// Package tape is the single source of nondeterminism for every simulated run.
//
// A Tape is a sequence of bounded choices. In recording mode the choices come
// from a splitmix64 PRNG initialised from one seed; in replay mode they are read
// from a stored slice (0 when exhausted, reduced modulo the bound when out of
// range). Either way the effective choices are recorded, so that Rec() after a
// run is a normalised tape that reproduces the run exactly.
//
// Logging never draws from the tape and never reads a clock.
package tape

// Tape is not safe for concurrent use; every run is single threaded by
// construction (one task runs at a time, the controller owns the tape).
type Tape struct {
	state  uint64
	rec    []uint64
	src    []uint64
	pos    int
	replay bool
}

// New returns a recording tape seeded with seed.
func New(seed uint64) *Tape {
	return &Tape{state: seed}
}

// Replay returns a tape that replays vals.
func Replay(vals []uint64) *Tape {
	return &Tape{src: vals, replay: true}
}

func splitmix(s *uint64) uint64 {
	*s += 0x9e3779b97f4a7c15
	z := *s
	z = (z ^ (z >> 30)) * 0xbf58476d1ce4e5b9
	z = (z ^ (z >> 27)) * 0x94d049bb133111eb
	return z ^ (z >> 31)
}

// Mix derives the seed of run idx from the check seed.
func Mix(seed uint64, idx uint64) uint64 {
	s := seed ^ (idx+1)*0xd6e8feb86659fd93
	_ = splitmix(&s)
	return splitmix(&s)
}

// Draw returns a value in [0,n). n <= 1 returns 0 without consuming a choice.
func (t *Tape) Draw(n int) int {
	if n <= 1 {
		return 0
	}
	var v uint64
	if t.replay {
		if t.pos < len(t.src) {
			v = t.src[t.pos] % uint64(n)
		}
		t.pos++
	} else {
		v = splitmix(&t.state) % uint64(n)
	}
	t.rec = append(t.rec, v)
	return int(v)
}

// Bool is true with probability num/den.
func (t *Tape) Bool(num, den int) bool {
	return t.Draw(den) < num
}

// Range returns a value in [lo,hi].
func (t *Tape) Range(lo, hi int) int {
	if hi <= lo {
		return lo
	}
	return lo + t.Draw(hi-lo+1)
}

// Rec returns the effective choices made so far.
func (t *Tape) Rec() []uint64 {
	out := make([]uint64, len(t.rec))
	copy(out, t.rec)
	return out
}

// Len is the number of choices made so far.
func (t *Tape) Len() int { return len(t.rec) }

// Shrink minimises vals while fails(candidate) stays true. fails must be a pure
// function of the candidate (a full re-run). budget bounds the number of
// candidate runs. The result is a tape for which fails was observed true (or
// vals itself).
func Shrink(vals []uint64, fails func([]uint64) bool, budget int) []uint64 {
	cur := append([]uint64(nil), vals...)
	try := func(c []uint64) bool {
		if budget <= 0 {
			return false
		}
		budget--
		return fails(c)
	}
	// strip trailing zeros: an exhausted replay tape yields zeros anyway
	trim := func(c []uint64) []uint64 {
		for len(c) > 0 && c[len(c)-1] == 0 {
			c = c[:len(c)-1]
		}
		return c
	}
	cur = trim(cur)
	improved := true
	for improved && budget > 0 {
		improved = false
		// 1. delete chunks
		for size := len(cur) / 2; size >= 1 && budget > 0; size /= 2 {
			for i := 0; i+size <= len(cur) && budget > 0; {
				c := make([]uint64, 0, len(cur)-size)
				c = append(c, cur[:i]...)
				c = append(c, cur[i+size:]...)
				if try(c) {
					cur = trim(c)
					improved = true
				} else {
					i += size
				}
			}
		}
		// 2. zero chunks, then single entries
		for size := len(cur) / 2; size >= 1 && budget > 0; size /= 2 {
			for i := 0; i+size <= len(cur) && budget > 0; i += size {
				allZero := true
				for _, v := range cur[i : i+size] {
					if v != 0 {
						allZero = false
						break
					}
				}
				if allZero {
					continue
				}
				c := append([]uint64(nil), cur...)
				for j := i; j < i+size; j++ {
					c[j] = 0
				}
				if try(c) {
					cur = trim(c)
					improved = true
				}
			}
		}
		// 3. lower single entries (binary search towards 0)
		for i := 0; i < len(cur) && budget > 0; i++ {
			if cur[i] == 0 {
				continue
			}
			lo, hi := uint64(0), cur[i] // invariant: hi fails
			for lo < hi && budget > 0 {
				mid := lo + (hi-lo)/2
				c := append([]uint64(nil), cur...)
				c[i] = mid
				if try(c) {
					hi = mid
					cur = c
					improved = improved || true
				} else {
					lo = mid + 1
				}
			}
		}
		cur = trim(cur)
	}
	return cur
}
