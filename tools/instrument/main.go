// Command instrument rewrites a scratch copy of pkg/ggql for the simulator.
//
//  1. every type expression sync.Mutex / sync.RWMutex becomes VerifMutex /
//     VerifRWMutex (defined in the generated file zz_verif_sim.go): all
//     existing Lock/Unlock call sites keep compiling, so a tree in which locks
//     were added, moved or removed is instrumented exactly as it stands;
//  2. before every statement that certainly reads or writes a watch-listed
//     struct field (resolved through go/types), a call
//     verifAccess(id, func() unsafe.Pointer { return unsafe.Pointer(&x.f) }, write, "file:line")
//     is inserted: a scheduling point, a coverage probe and the input of the
//     deterministic vector-clock race check.
//
// It prints a JSON summary (sites found, other synchronisation primitives seen)
// on stdout. It never touches /repo: it is pointed at the scratch copy.
package main

import (
	"bytes"
	"encoding/json"
	"fmt"
	"go/ast"
	"go/format"
	"go/importer"
	"go/parser"
	"go/token"
	"go/types"
	"os"
	"path/filepath"
	"sort"
	"strings"
)

// watch list: struct type name -> field names
var watch = map[string][]string{
	"Root":         {"types", "dirs", "schema", "subscriptions", "AnyResolver", "obj"},
	"typeList":     {"list", "dict"},
	"Object":       {"meta", "Interfaces", "fields"},
	"FieldDef":     {"goField", "method", "args", "Type"},
	"Input":        {"meta", "fields"},
	"Union":        {"Members"},
	"Enum":         {"values"},
	"Base":         {"Dirs"},
	"Field":        {"ConType", "Args"},
	"ArgValue":     {"Value"},
	"Arg":          {"Default"},
	"DirectiveUse": {"Args"},
	"Subscription": {"sub", "field", "args"},
	"fieldList":    {"list", "dict"},
	"argList":      {"list", "dict"},
	"VarDef":       {"Default"},
}

type summary struct {
	Files          int            `json:"files"`
	MutexTypes     int            `json:"mutex_type_sites_rewritten"`
	LockCallSites  int            `json:"lock_unlock_call_sites"`
	AccessSites    int            `json:"access_sites_inserted"`
	AccessByField  map[string]int `json:"access_sites_by_field"`
	OtherSync      []string       `json:"other_sync_primitives_not_owned_by_simulator"`
	FieldIDs       []string       `json:"field_ids"`
	SkippedNonAddr int            `json:"accesses_skipped_not_addressable"`
	MapRanges      int            `json:"map_range_loops_put_behind_the_tape"`
	MapRangesLeft  []string       `json:"map_range_loops_not_rewritten"`
	// primitives the simulator took over in this tree (beyond mutexes)
	GoStmts   int `json:"go_statements_turned_into_scheduled_tasks"`
	ChanOps   int `json:"channel_sends_and_receives_made_cooperative"`
	OnceTypes int `json:"sync_once_and_waitgroup_types_rewritten"`
	AtomicOps int `json:"sync_atomic_operations_given_a_scheduling_point"`
}

func fatal(f string, a ...interface{}) {
	fmt.Fprintf(os.Stderr, "instrument: "+f+"\n", a...)
	os.Exit(1)
}

func main() {
	if len(os.Args) != 2 {
		fatal("usage: instrument <package dir>")
	}
	dir := os.Args[1]
	fset := token.NewFileSet()
	pkgs, err := parser.ParseDir(fset, dir, func(fi os.FileInfo) bool {
		return !strings.HasSuffix(fi.Name(), "_test.go") && !strings.HasPrefix(fi.Name(), "zz_verif")
	}, parser.ParseComments)
	if err != nil {
		fatal("parse: %v", err)
	}
	pkg := pkgs["ggql"]
	if pkg == nil {
		fatal("package ggql not found in %s", dir)
	}
	var files []*ast.File
	var names []string
	for n := range pkg.Files {
		names = append(names, n)
	}
	sort.Strings(names)
	for _, n := range names {
		files = append(files, pkg.Files[n])
	}
	info := &types.Info{
		Types:      map[ast.Expr]types.TypeAndValue{},
		Selections: map[*ast.SelectorExpr]*types.Selection{},
		Uses:       map[*ast.Ident]types.Object{},
		Defs:       map[*ast.Ident]types.Object{},
	}
	conf := types.Config{Importer: importer.ForCompiler(fset, "source", nil), Error: func(err error) {}}
	tpkg, err := conf.Check("github.com/uhn/ggql/pkg/ggql", fset, files, info)
	if err != nil {
		// type errors in the tree under test are the build's business; we still
		// need type information, so fail loudly.
		fatal("type check: %v", err)
	}

	sum := summary{AccessByField: map[string]int{}}
	// field ids
	fieldID := map[*types.Var]int{}
	var tnames []string
	for tn := range watch {
		tnames = append(tnames, tn)
	}
	sort.Strings(tnames)
	for _, tn := range tnames {
		obj := tpkg.Scope().Lookup(tn)
		if obj == nil {
			continue
		}
		st, _ := obj.Type().Underlying().(*types.Struct)
		if st == nil {
			continue
		}
		for _, fn := range watch[tn] {
			for i := 0; i < st.NumFields(); i++ {
				if st.Field(i).Name() == fn {
					fieldID[st.Field(i)] = len(sum.FieldIDs)
					sum.FieldIDs = append(sum.FieldIDs, tn+"."+fn)
				}
			}
		}
	}

	otherSync := map[string]bool{}
	handledSync := false
	chanRanges := map[*ast.RangeStmt]bool{}
	for fi, f := range files {
		fname := filepath.Base(names[fi])
		usesUnsafe := false
		// 1. mutex type rewrite + detection of other primitives
		ast.Inspect(f, func(n ast.Node) bool {
			switch x := n.(type) {
			case *ast.GoStmt, *ast.ChanType:
				handledSync = true // go statements become scheduled tasks, sends / receives cooperative
			case *ast.SelectStmt:
				if selectHasSend(x) {
					otherSync["select statement with a send case "+fname+":"+fmt.Sprint(fset.Position(x.Pos()).Line)] = true
				} else {
					handledSync = true // receive-only selects poll
				}
			case *ast.RangeStmt:
				if tv, ok := info.Types[x.X]; ok {
					if _, isChan := tv.Type.Underlying().(*types.Chan); isChan {
						handledSync = true
						chanRanges[x] = true
					}
				}
			case *ast.SelectorExpr:
				if id, ok := x.X.(*ast.Ident); ok {
					if pn, ok := info.Uses[id].(*types.PkgName); ok {
						switch pn.Imported().Path() {
						case "sync":
							switch x.Sel.Name {
							case "Mutex", "RWMutex":
							case "Once", "WaitGroup", "Cond", "NewCond", "Locker", "Map", "Pool":
								handledSync = true // rewritten to cooperative versions below (Map / Pool never block)
							default:
								otherSync["sync."+x.Sel.Name+" "+fname+":"+fmt.Sprint(fset.Position(x.Pos()).Line)] = true
							}
						case "sync/atomic":
							handledSync = true // every atomic operation gets a scheduling point in front of it
						case "time":
							switch x.Sel.Name {
							case "Now", "Sleep", "After", "NewTimer", "NewTicker", "AfterFunc", "Since", "Tick":
								otherSync["time."+x.Sel.Name+" "+fname+":"+fmt.Sprint(fset.Position(x.Pos()).Line)] = true
							}
						case "math/rand":
							otherSync["math/rand."+x.Sel.Name+" "+fname+":"+fmt.Sprint(fset.Position(x.Pos()).Line)] = true
						}
					}
				}
				if s := info.Selections[x]; s != nil && s.Kind() == types.MethodVal {
					if isSyncMutex(s.Recv()) {
						switch x.Sel.Name {
						case "Lock", "Unlock", "RLock", "RUnlock", "TryLock":
							sum.LockCallSites++
						}
					}
				}
			}
			return true
		})
		rewriteOwnerMutexes(f, info, &sum)
		rewriteMutexTypes(f, info, &sum)

		// 2. access instrumentation
		ins := &inserter{fset: fset, info: info, fieldID: fieldID, names: sum.FieldIDs, fname: fname, sum: &sum}
		for _, d := range f.Decls {
			if fd, ok := d.(*ast.FuncDecl); ok && fd.Body != nil {
				ins.block(fd.Body)
			}
		}
		if ins.inserted > 0 {
			usesUnsafe = true
		}
		// 3. goroutines, channel operations, sync.Once / sync.WaitGroup
		rewriteConcurrency(f, info, &sum, chanRanges)
		var buf bytes.Buffer
		if err := format.Node(&buf, fset, f); err != nil {
			fatal("print %s: %v", fname, err)
		}
		src := buf.String()
		if usesUnsafe && !importsPkg(f, "unsafe") {
			src = addImport(src, "unsafe")
		}
		if importsPkg(f, "sync") {
			src += "\nvar _ sync.Locker // verif: keeps the import used after the mutex type rewrite\n"
		}
		if err := os.WriteFile(names[fi], []byte(src), 0o644); err != nil {
			fatal("write: %v", err)
		}
		sum.Files++
	}
	for k := range otherSync {
		sum.OtherSync = append(sum.OtherSync, k)
	}
	if handledSync {
		// not foreign to the simulator, but synchronisation the vector clocks
		// over lock events do not model
		sum.OtherSync = append(sum.OtherSync, "sync (handled): goroutines / channels / Once / WaitGroup are scheduled cooperatively; the vector-clock check is off, the race detector remains")
	}
	sort.Strings(sum.OtherSync)
	if err := os.WriteFile(filepath.Join(dir, "zz_verif_sim.go"), []byte(genFile(sum.FieldIDs)), 0o644); err != nil {
		fatal("write generated file: %v", err)
	}
	out, _ := json.Marshal(&sum)
	fmt.Println(string(out))
}

// rewriteConcurrency turns go statements into scheduled tasks and channel
// sends / receives (outside select) into cooperative polling operations.
func selectHasSend(x *ast.SelectStmt) bool {
	for _, c := range x.Body.List {
		if cc, ok := c.(*ast.CommClause); ok {
			if _, isSend := cc.Comm.(*ast.SendStmt); isSend {
				return true
			}
		}
	}
	return false
}

func selectHasDefault(x *ast.SelectStmt) bool {
	for _, c := range x.Body.List {
		if cc, ok := c.(*ast.CommClause); ok && cc.Comm == nil {
			return true
		}
	}
	return false
}

// retargetBreaks replaces the unlabelled break statements that refer to the
// enclosing select (not the ones inside nested for / switch / select) by a
// break to label.
func retargetBreaks(list []ast.Stmt, label string) {
	var visit func(st ast.Stmt)
	visit = func(st ast.Stmt) {
		switch x := st.(type) {
		case *ast.BranchStmt:
			if x.Tok == token.BREAK && x.Label == nil {
				x.Label = ast.NewIdent(label)
			}
		case *ast.BlockStmt:
			for _, y := range x.List {
				visit(y)
			}
		case *ast.IfStmt:
			visit(x.Body)
			if x.Else != nil {
				visit(x.Else)
			}
		case *ast.LabeledStmt:
			visit(x.Stmt)
		}
	}
	for _, st := range list {
		visit(st)
	}
}

func rewriteConcurrency(f *ast.File, info *types.Info, sum *summary, chanRanges map[*ast.RangeStmt]bool) {
	selN := 0
	call := func(name string, args ...ast.Expr) *ast.CallExpr {
		return &ast.CallExpr{Fun: ast.NewIdent(name), Args: args}
	}
	var exprFix func(e ast.Expr) ast.Expr
	exprFix = func(e ast.Expr) ast.Expr {
		if u, ok := e.(*ast.UnaryExpr); ok && u.Op == token.ARROW {
			sum.ChanOps++
			return call("verifRecv", u.X)
		}
		if c, ok := e.(*ast.CallExpr); ok {
			if se, ok := c.Fun.(*ast.SelectorExpr); ok {
				// sync/atomic: a scheduling point in front of the operation (atomics
				// never block and are sequentially consistent, so an interleaving
				// of whole operations is all there is to explore)
				if id, ok := se.X.(*ast.Ident); ok {
					if pn, ok := info.Uses[id].(*types.PkgName); ok && pn.Imported().Path() == "sync/atomic" && len(c.Args) > 0 {
						c.Args[0] = call("verifAt", c.Args[0])
						sum.AtomicOps++
						return e
					}
				}
				if sel := info.Selections[se]; sel != nil && sel.Kind() == types.MethodVal {
					if fn, ok := sel.Obj().(*types.Func); ok && fn.Pkg() != nil && fn.Pkg().Path() == "sync/atomic" {
						if tv, ok := info.Types[se.X]; ok {
							if _, isPtr := tv.Type.Underlying().(*types.Pointer); isPtr {
								se.X = call("verifAt", se.X)
							} else {
								se.X = call("verifAt", &ast.UnaryExpr{Op: token.AND, X: se.X})
							}
							sum.AtomicOps++
							return e
						}
					}
				}
			}
			if se, ok := c.Fun.(*ast.SelectorExpr); ok && se.Sel.Name == "NewCond" {
				if id, ok := se.X.(*ast.Ident); ok {
					if pn, ok := info.Uses[id].(*types.PkgName); ok && pn.Imported().Path() == "sync" {
						c.Fun = ast.NewIdent("verifNewCond")
					}
				}
			}
		}
		return e
	}
	tmpN := 0
	var stmtFix func(st ast.Stmt) ast.Stmt
	stmtFix = func(st ast.Stmt) ast.Stmt {
		switch x := st.(type) {
		case *ast.SendStmt:
			sum.ChanOps++
			return &ast.ExprStmt{X: call("verifSend", x.Chan, x.Value)}
		case *ast.AssignStmt:
			if len(x.Lhs) == 2 && len(x.Rhs) == 1 {
				if u, ok := x.Rhs[0].(*ast.UnaryExpr); ok && u.Op == token.ARROW {
					sum.ChanOps++
					x.Rhs[0] = call("verifRecv2", u.X)
				}
			}
		case *ast.SelectStmt:
			if selectHasSend(x) || selectHasDefault(x) {
				break // a select with default never blocks; one with a send case stays foreign
			}
			// receive-only select: poll, yield to the simulator when nothing is ready
			selN++
			label := fmt.Sprintf("verifSel%d", selN)
			for _, c := range x.Body.List {
				cc := c.(*ast.CommClause)
				retargetBreaks(cc.Body, label)
				cc.Body = append(cc.Body, &ast.BranchStmt{Tok: token.BREAK, Label: ast.NewIdent(label)})
			}
			x.Body.List = append(x.Body.List, &ast.CommClause{Body: []ast.Stmt{
				&ast.ExprStmt{X: call("verifWait", &ast.BasicLit{Kind: token.STRING, Value: "\"select\""})},
			}})
			sum.ChanOps++
			return &ast.LabeledStmt{Label: ast.NewIdent(label), Stmt: &ast.ForStmt{Body: &ast.BlockStmt{List: []ast.Stmt{x}}}}
		case *ast.RangeStmt:
			if !chanRanges[x] {
				break
			}
			// for v := range ch  ->  for { v, ok := verifRecv2(ch); if !ok { break }; ... }
			sum.ChanOps++
			key := x.Key
			if key == nil {
				key = ast.NewIdent("_")
			}
			tok := x.Tok
			if tok != token.ASSIGN {
				tok = token.DEFINE
			}
			okID := ast.NewIdent("verifOk")
			body := append([]ast.Stmt{
				&ast.AssignStmt{Lhs: []ast.Expr{key, okID}, Tok: token.DEFINE, Rhs: []ast.Expr{call("verifRecv2", x.X)}},
				&ast.IfStmt{Cond: &ast.UnaryExpr{Op: token.NOT, X: ast.NewIdent("verifOk")}, Body: &ast.BlockStmt{List: []ast.Stmt{&ast.BranchStmt{Tok: token.BREAK}}}},
			}, x.Body.List...)
			if tok == token.ASSIGN {
				// the variable exists already: receive into a temporary first
				tmp := ast.NewIdent("verifV")
				body[0] = &ast.AssignStmt{Lhs: []ast.Expr{tmp, okID}, Tok: token.DEFINE, Rhs: []ast.Expr{call("verifRecv2", x.X)}}
				body = append(body[:2], append([]ast.Stmt{&ast.AssignStmt{Lhs: []ast.Expr{key}, Tok: token.ASSIGN, Rhs: []ast.Expr{ast.NewIdent("verifV")}}}, body[2:]...)...)
			}
			return &ast.ForStmt{Body: &ast.BlockStmt{List: body}}
		case *ast.GoStmt:
			sum.GoStmts++
			c := x.Call
			if fl, ok := c.Fun.(*ast.FuncLit); ok && len(c.Args) == 0 {
				return &ast.ExprStmt{X: call("verifGo", fl)}
			}
			// function value and arguments are evaluated by the go statement
			// itself, only the call runs in the new goroutine
			var lhs, rhs []ast.Expr
			var args []ast.Expr
			mk := func(e ast.Expr) ast.Expr {
				tmpN++
				id := ast.NewIdent(fmt.Sprintf("verifTmp%d", tmpN))
				lhs = append(lhs, id)
				rhs = append(rhs, e)
				return ast.NewIdent(id.Name)
			}
			fn := mk(c.Fun)
			for _, a := range c.Args {
				args = append(args, mk(a))
			}
			inner := &ast.CallExpr{Fun: fn, Args: args, Ellipsis: c.Ellipsis}
			if c.Ellipsis.IsValid() {
				inner.Ellipsis = 1
			}
			return &ast.BlockStmt{List: []ast.Stmt{
				&ast.AssignStmt{Lhs: lhs, Tok: token.DEFINE, Rhs: rhs},
				&ast.ExprStmt{X: call("verifGo", &ast.FuncLit{
					Type: &ast.FuncType{Params: &ast.FieldList{}},
					Body: &ast.BlockStmt{List: []ast.Stmt{&ast.ExprStmt{X: inner}}},
				})},
			}}
		}
		return st
	}
	rewriteTree(f, exprFix, stmtFix)
}

// rewriteTree applies exprFix to every expression slot and stmtFix to every
// statement slot of the tree (post-order), leaving the communication clauses of
// select statements alone.
func rewriteTree(root ast.Node, exprFix func(ast.Expr) ast.Expr, stmtFix func(ast.Stmt) ast.Stmt) {
	var walk func(n ast.Node)
	fixExpr := func(e ast.Expr) ast.Expr {
		if e == nil {
			return nil
		}
		walk(e)
		return exprFix(e)
	}
	fixStmt := func(st ast.Stmt) ast.Stmt {
		if st == nil {
			return nil
		}
		// two-value receive must be seen before its operand is rewritten
		st = stmtFixPre(st, stmtFix)
		walk(st)
		return st
	}
	walk = func(n ast.Node) {
		switch x := n.(type) {
		case nil:
		case *ast.File:
			for _, d := range x.Decls {
				walk(d)
			}
		case *ast.GenDecl:
			for _, sp := range x.Specs {
				if vs, ok := sp.(*ast.ValueSpec); ok {
					for i := range vs.Values {
						vs.Values[i] = fixExpr(vs.Values[i])
					}
				}
			}
		case *ast.FuncDecl:
			if x.Body != nil {
				walk(x.Body)
			}
		case *ast.BlockStmt:
			for i := range x.List {
				x.List[i] = fixStmt(x.List[i])
			}
		case *ast.ExprStmt:
			x.X = fixExpr(x.X)
		case *ast.AssignStmt:
			for i := range x.Rhs {
				x.Rhs[i] = fixExpr(x.Rhs[i])
			}
			for i := range x.Lhs {
				x.Lhs[i] = fixExpr(x.Lhs[i])
			}
		case *ast.ReturnStmt:
			for i := range x.Results {
				x.Results[i] = fixExpr(x.Results[i])
			}
		case *ast.IfStmt:
			x.Init = fixStmt(x.Init)
			x.Cond = fixExpr(x.Cond)
			walk(x.Body)
			if x.Else != nil {
				x.Else = fixStmt(x.Else)
			}
		case *ast.ForStmt:
			x.Init = fixStmt(x.Init)
			x.Cond = fixExpr(x.Cond)
			x.Post = fixStmt(x.Post)
			walk(x.Body)
		case *ast.RangeStmt:
			x.X = fixExpr(x.X)
			walk(x.Body)
		case *ast.SwitchStmt:
			x.Init = fixStmt(x.Init)
			x.Tag = fixExpr(x.Tag)
			walk(x.Body)
		case *ast.TypeSwitchStmt:
			x.Init = fixStmt(x.Init)
			walk(x.Body)
		case *ast.CaseClause:
			for i := range x.List {
				x.List[i] = fixExpr(x.List[i])
			}
			for i := range x.Body {
				x.Body[i] = fixStmt(x.Body[i])
			}
		case *ast.SelectStmt:
			walk(x.Body)
		case *ast.CommClause:
			// x.Comm stays as written
			for i := range x.Body {
				x.Body[i] = fixStmt(x.Body[i])
			}
		case *ast.LabeledStmt:
			x.Stmt = fixStmt(x.Stmt)
		case *ast.DeferStmt:
			walk(x.Call)
		case *ast.GoStmt:
			walk(x.Call)
		case *ast.DeclStmt:
			walk(x.Decl)
		case *ast.IncDecStmt:
			x.X = fixExpr(x.X)
		case *ast.SendStmt:
			x.Chan = fixExpr(x.Chan)
			x.Value = fixExpr(x.Value)
		case *ast.CallExpr:
			x.Fun = fixExpr(x.Fun)
			for i := range x.Args {
				x.Args[i] = fixExpr(x.Args[i])
			}
		case *ast.ParenExpr:
			x.X = fixExpr(x.X)
		case *ast.UnaryExpr:
			x.X = fixExpr(x.X)
		case *ast.BinaryExpr:
			x.X = fixExpr(x.X)
			x.Y = fixExpr(x.Y)
		case *ast.StarExpr:
			x.X = fixExpr(x.X)
		case *ast.SelectorExpr:
			x.X = fixExpr(x.X)
		case *ast.IndexExpr:
			x.X = fixExpr(x.X)
			x.Index = fixExpr(x.Index)
		case *ast.SliceExpr:
			x.X = fixExpr(x.X)
			x.Low, x.High, x.Max = fixExpr(x.Low), fixExpr(x.High), fixExpr(x.Max)
		case *ast.TypeAssertExpr:
			x.X = fixExpr(x.X)
		case *ast.KeyValueExpr:
			x.Value = fixExpr(x.Value)
		case *ast.CompositeLit:
			for i := range x.Elts {
				x.Elts[i] = fixExpr(x.Elts[i])
			}
		case *ast.FuncLit:
			walk(x.Body)
		}
	}
	walk(root)
}

// stmtFixPre applies the statement rewrite (go / send / two-value receive)
// before the operands of the statement are visited.
func stmtFixPre(st ast.Stmt, stmtFix func(ast.Stmt) ast.Stmt) ast.Stmt {
	return stmtFix(st)
}

func isSyncMutex(t types.Type) bool {
	if p, ok := t.(*types.Pointer); ok {
		t = p.Elem()
	}
	if n, ok := t.(*types.Named); ok && n.Obj().Pkg() != nil && n.Obj().Pkg().Path() == "sync" {
		return n.Obj().Name() == "Mutex" || n.Obj().Name() == "RWMutex"
	}
	return false
}

// ownerMutex describes a sync.Mutex field of a struct: it gets its own wrapper
// type so that the lock can be named after its owner ("Object(Keeper).mu"),
// which is stable across runs and schedules (addresses are not).
type ownerMutex struct {
	Struct, Field string
	HasN          bool
}

var ownerMutexes []ownerMutex

func rewriteOwnerMutexes(f *ast.File, info *types.Info, sum *summary) {
	for _, d := range f.Decls {
		gd, ok := d.(*ast.GenDecl)
		if !ok {
			continue
		}
		for _, sp := range gd.Specs {
			ts, ok := sp.(*ast.TypeSpec)
			if !ok {
				continue
			}
			st, ok := ts.Type.(*ast.StructType)
			if !ok {
				continue
			}
			for _, fld := range st.Fields.List {
				se, ok := fld.Type.(*ast.SelectorExpr)
				if !ok || len(fld.Names) != 1 {
					continue
				}
				id, ok := se.X.(*ast.Ident)
				if !ok {
					continue
				}
				pn, ok := info.Uses[id].(*types.PkgName)
				if !ok || pn.Imported().Path() != "sync" || se.Sel.Name != "Mutex" {
					continue
				}
				om := ownerMutex{Struct: ts.Name.Name, Field: fld.Names[0].Name}
				if obj := info.Defs[ts.Name]; obj != nil {
					if o, _, _ := types.LookupFieldOrMethod(obj.Type(), true, obj.Pkg(), "N"); o != nil {
						if v, ok := o.(*types.Var); ok {
							if b, ok := v.Type().Underlying().(*types.Basic); ok && b.Kind() == types.String {
								om.HasN = true
							}
						}
					}
				}
				ownerMutexes = append(ownerMutexes, om)
				fld.Type = &ast.Ident{Name: "VerifMutex_" + om.Struct + "_" + om.Field, NamePos: se.Pos()}
				sum.MutexTypes++
			}
		}
	}
}

func rewriteMutexTypes(f *ast.File, info *types.Info, sum *summary) {
	repl := func(e ast.Expr) ast.Expr {
		if se, ok := e.(*ast.SelectorExpr); ok {
			if id, ok := se.X.(*ast.Ident); ok {
				if pn, ok := info.Uses[id].(*types.PkgName); ok && pn.Imported().Path() == "sync" {
					switch se.Sel.Name {
					case "Mutex":
						sum.MutexTypes++
						return &ast.Ident{Name: "VerifMutex", NamePos: se.Pos()}
					case "RWMutex":
						sum.MutexTypes++
						return &ast.Ident{Name: "VerifRWMutex", NamePos: se.Pos()}
					case "Once":
						sum.OnceTypes++
						return &ast.Ident{Name: "VerifOnce", NamePos: se.Pos()}
					case "WaitGroup":
						sum.OnceTypes++
						return &ast.Ident{Name: "VerifWaitGroup", NamePos: se.Pos()}
					case "Cond":
						sum.OnceTypes++
						return &ast.Ident{Name: "VerifCond", NamePos: se.Pos()}
					}
				}
			}
		}
		return e
	}
	ast.Inspect(f, func(n ast.Node) bool {
		switch x := n.(type) {
		case *ast.Field:
			x.Type = replDeep(x.Type, repl)
		case *ast.ValueSpec:
			if x.Type != nil {
				x.Type = replDeep(x.Type, repl)
			}
		case *ast.TypeSpec:
			x.Type = replDeep(x.Type, repl)
		case *ast.CompositeLit:
			if x.Type != nil {
				x.Type = replDeep(x.Type, repl)
			}
		}
		return true
	})
}

func replDeep(e ast.Expr, repl func(ast.Expr) ast.Expr) ast.Expr {
	switch x := e.(type) {
	case *ast.SelectorExpr:
		return repl(x)
	case *ast.StarExpr:
		x.X = replDeep(x.X, repl)
	case *ast.ArrayType:
		x.Elt = replDeep(x.Elt, repl)
	case *ast.MapType:
		x.Key = replDeep(x.Key, repl)
		x.Value = replDeep(x.Value, repl)
	}
	return e
}

func importsPkg(f *ast.File, path string) bool {
	for _, im := range f.Imports {
		if strings.Trim(im.Path.Value, `"`) == path {
			return true
		}
	}
	return false
}

func addImport(src, path string) string {
	i := strings.Index(src, "\npackage ggql\n")
	if i < 0 {
		fatal("package clause not found")
	}
	j := i + len("\npackage ggql\n")
	return src[:j] + "\nimport \"" + path + "\"\n" + src[j:]
}

type inserter struct {
	fset     *token.FileSet
	info     *types.Info
	fieldID  map[*types.Var]int
	names    []string
	fname    string
	sum      *summary
	inserted int
}

type access struct {
	sel   *ast.SelectorExpr
	id    int
	write bool
}

func (in *inserter) block(b *ast.BlockStmt) {
	if b == nil {
		return
	}
	b.List = in.list(b.List)
}

func (in *inserter) list(stmts []ast.Stmt) []ast.Stmt {
	var out []ast.Stmt
	for _, s := range stmts {
		for _, a := range in.accesses(s) {
			out = append(out, in.call(a))
		}
		in.descend(s)
		if ls, ok := s.(*ast.LabeledStmt); ok {
			if rs, ok := ls.Stmt.(*ast.RangeStmt); ok && in.isStringMap(rs.X) {
				in.sum.MapRangesLeft = append(in.sum.MapRangesLeft, fmt.Sprintf("%s:%d (labeled)", in.fname, in.fset.Position(rs.Pos()).Line))
			}
		}
		if rs, ok := s.(*ast.RangeStmt); ok && in.isStringMap(rs.X) {
			out = append(out, in.rewriteMapRange(rs))
			continue
		}
		out = append(out, s)
	}
	return out
}

func (in *inserter) isStringMap(e ast.Expr) bool {
	tv, ok := in.info.Types[e]
	if !ok {
		return false
	}
	m, ok := tv.Type.Underlying().(*types.Map)
	if !ok {
		return false
	}
	b, ok := m.Key().Underlying().(*types.Basic)
	if !ok || b.Kind() != types.String {
		in.sum.MapRangesLeft = append(in.sum.MapRangesLeft, fmt.Sprintf("%s:%d (key type %s)", in.fname, in.fset.Position(e.Pos()).Line, m.Key()))
		return false
	}
	return true
}

// rewriteMapRange turns
//
//	for k, v := range m { body }
//
// into an iteration over the keys in an order decided by the simulator (sorted,
// then rotated by a tape-drawn amount), which is one of the orders Go permits:
//
//	{ verifM := m; for _, verifK := range verifMapKeys(verifM) { verifV, verifOK := verifM[verifK]; if !verifOK { continue }; k, v := verifK, verifV; body } }
func (in *inserter) rewriteMapRange(rs *ast.RangeStmt) ast.Stmt {
	in.sum.MapRanges++
	id := func(n string) *ast.Ident { return ast.NewIdent(n) }
	isBlank := func(e ast.Expr) bool {
		if e == nil {
			return true
		}
		i, ok := e.(*ast.Ident)
		return ok && i.Name == "_"
	}
	var pre []ast.Stmt
	pre = append(pre, &ast.AssignStmt{Lhs: []ast.Expr{id("verifV"), id("verifOK")}, Tok: token.DEFINE,
		Rhs: []ast.Expr{&ast.IndexExpr{X: id("verifM"), Index: id("verifK")}}})
	pre = append(pre, &ast.IfStmt{Cond: &ast.UnaryExpr{Op: token.NOT, X: id("verifOK")}, Body: &ast.BlockStmt{List: []ast.Stmt{&ast.BranchStmt{Tok: token.CONTINUE}}}})
	pre = append(pre, &ast.AssignStmt{Lhs: []ast.Expr{id("_")}, Tok: token.ASSIGN, Rhs: []ast.Expr{id("verifV")}})
	if !isBlank(rs.Key) || !isBlank(rs.Value) {
		var lhs, rhs []ast.Expr
		if !isBlank(rs.Key) {
			lhs = append(lhs, rs.Key)
			rhs = append(rhs, id("verifK"))
		}
		if !isBlank(rs.Value) {
			lhs = append(lhs, rs.Value)
			rhs = append(rhs, id("verifV"))
		}
		pre = append(pre, &ast.AssignStmt{Lhs: lhs, Tok: rs.Tok, Rhs: rhs})
		if rs.Tok == token.DEFINE {
			// silence "declared and not used" for variables the body ignores
			for _, l := range lhs {
				pre = append(pre, &ast.AssignStmt{Lhs: []ast.Expr{id("_")}, Tok: token.ASSIGN, Rhs: []ast.Expr{l}})
			}
		}
	}
	body := &ast.BlockStmt{List: append(pre, rs.Body.List...)}
	loop := &ast.RangeStmt{Key: id("_"), Value: id("verifK"), Tok: token.DEFINE,
		X: &ast.CallExpr{Fun: id("verifMapKeys"), Args: []ast.Expr{id("verifM")}}, Body: body}
	return &ast.BlockStmt{List: []ast.Stmt{
		&ast.AssignStmt{Lhs: []ast.Expr{id("verifM")}, Tok: token.DEFINE, Rhs: []ast.Expr{rs.X}},
		loop,
	}}
}

// descend instruments nested statement lists.
func (in *inserter) descend(s ast.Stmt) {
	switch x := s.(type) {
	case *ast.BlockStmt:
		in.block(x)
	case *ast.IfStmt:
		in.block(x.Body)
		if x.Else != nil {
			in.descend(x.Else)
		}
	case *ast.ForStmt:
		in.block(x.Body)
	case *ast.RangeStmt:
		in.block(x.Body)
	case *ast.SwitchStmt:
		in.clauses(x.Body)
	case *ast.TypeSwitchStmt:
		in.clauses(x.Body)
	case *ast.SelectStmt:
		in.clauses(x.Body)
	case *ast.LabeledStmt:
		in.descend(x.Stmt)
	}
}

func (in *inserter) clauses(b *ast.BlockStmt) {
	for _, c := range b.List {
		switch cc := c.(type) {
		case *ast.CaseClause:
			cc.Body = in.list(cc.Body)
		case *ast.CommClause:
			cc.Body = in.list(cc.Body)
		}
	}
}

// accesses returns the watched field accesses that statement s certainly
// performs itself (not in nested blocks, function literals, or the right-hand
// side of && / ||).
func (in *inserter) accesses(s ast.Stmt) []access {
	var exprs []ast.Expr
	var lhs []ast.Expr
	switch x := s.(type) {
	case *ast.AssignStmt:
		exprs = append(exprs, x.Rhs...)
		lhs = x.Lhs
	case *ast.IncDecStmt:
		lhs = []ast.Expr{x.X}
	case *ast.ExprStmt:
		exprs = []ast.Expr{x.X}
	case *ast.ReturnStmt:
		exprs = x.Results
	case *ast.IfStmt:
		if x.Init != nil {
			return nil // keep it simple: header with init is not instrumented
		}
		exprs = []ast.Expr{x.Cond}
	case *ast.SwitchStmt:
		if x.Init != nil || x.Tag == nil {
			return nil
		}
		exprs = []ast.Expr{x.Tag}
	case *ast.RangeStmt:
		exprs = []ast.Expr{x.X}
	case *ast.LabeledStmt:
		return nil
	case *ast.DeclStmt:
		if gd, ok := x.Decl.(*ast.GenDecl); ok {
			for _, sp := range gd.Specs {
				if vs, ok := sp.(*ast.ValueSpec); ok {
					exprs = append(exprs, vs.Values...)
				}
			}
		}
	default:
		return nil
	}
	var out []access
	seen := map[string]bool{}
	add := func(sel *ast.SelectorExpr, write bool) {
		s := in.info.Selections[sel]
		if s == nil || s.Kind() != types.FieldVal {
			return
		}
		v, _ := s.Obj().(*types.Var)
		id, ok := in.fieldID[v]
		if !ok {
			return
		}
		tv, ok := in.info.Types[sel]
		if !ok || !tv.Addressable() {
			in.sum.SkippedNonAddr++
			return
		}
		key := fmt.Sprintf("%d/%v/%s", id, write, exprString(in.fset, sel))
		if seen[key] {
			return
		}
		seen[key] = true
		out = append(out, access{sel: sel, id: id, write: write})
	}
	var walk func(e ast.Expr, write bool)
	walk = func(e ast.Expr, write bool) {
		switch x := e.(type) {
		case nil:
		case *ast.SelectorExpr:
			add(x, write)
			walk(x.X, false)
		case *ast.BinaryExpr:
			walk(x.X, false)
			if x.Op != token.LAND && x.Op != token.LOR {
				walk(x.Y, false)
			}
		case *ast.CallExpr:
			walk(x.Fun, false)
			for _, a := range x.Args {
				walk(a, false)
			}
		case *ast.UnaryExpr:
			walk(x.X, false) // &x.f counts as a read of the field
		case *ast.StarExpr:
			walk(x.X, false)
		case *ast.ParenExpr:
			walk(x.X, write)
		case *ast.IndexExpr:
			// m[k] = v / s[i] = v writes through the field's value, which reads
			// the field itself (slice header / map pointer)
			walk(x.X, false)
			walk(x.Index, false)
		case *ast.SliceExpr:
			walk(x.X, false)
			walk(x.Low, false)
			walk(x.High, false)
			walk(x.Max, false)
		case *ast.TypeAssertExpr:
			walk(x.X, false)
		case *ast.CompositeLit:
			for _, el := range x.Elts {
				if kv, ok := el.(*ast.KeyValueExpr); ok {
					walk(kv.Value, false)
				} else {
					walk(el, false)
				}
			}
		case *ast.KeyValueExpr:
			walk(x.Value, false)
		case *ast.FuncLit:
			// not executed by this statement
		}
	}
	for _, e := range lhs {
		walk(e, true)
	}
	for _, e := range exprs {
		walk(e, false)
	}
	return out
}

func exprString(fset *token.FileSet, e ast.Expr) string {
	var b bytes.Buffer
	_ = format.Node(&b, fset, e)
	return b.String()
}

func (in *inserter) call(a access) ast.Stmt {
	pos := in.fset.Position(a.sel.Pos())
	site := fmt.Sprintf("%s:%d", in.fname, pos.Line)
	in.inserted++
	in.sum.AccessSites++
	in.sum.AccessByField[in.names[a.id]]++
	src := fmt.Sprintf("verifAccess(%d, func() unsafe.Pointer { return unsafe.Pointer(&%s) }, %v, %q)",
		a.id, exprString(in.fset, a.sel), a.write, site)
	e, err := parser.ParseExpr(src)
	if err != nil {
		fatal("internal: cannot parse %q: %v", src, err)
	}
	clearPos(e)
	return &ast.ExprStmt{X: e}
}

// clearPos removes position information from a synthesised expression so the
// printer lays it out on its own.
func clearPos(n ast.Node) {
	ast.Inspect(n, func(n ast.Node) bool {
		switch x := n.(type) {
		case *ast.Ident:
			x.NamePos = token.NoPos
		case *ast.BasicLit:
			x.ValuePos = token.NoPos
		case *ast.CallExpr:
			x.Lparen, x.Rparen = token.NoPos, token.NoPos
		case *ast.FuncLit:
			x.Type.Func = token.NoPos
		case *ast.BlockStmt:
			x.Lbrace, x.Rbrace = token.NoPos, token.NoPos
		case *ast.ReturnStmt:
			x.Return = token.NoPos
		case *ast.UnaryExpr:
			x.OpPos = token.NoPos
		case *ast.ParenExpr:
			x.Lparen, x.Rparen = token.NoPos, token.NoPos
		case *ast.IndexExpr:
			x.Lbrack, x.Rbrack = token.NoPos, token.NoPos
		case *ast.StarExpr:
			x.Star = token.NoPos
		case *ast.FieldList:
			x.Opening, x.Closing = token.NoPos, token.NoPos
		}
		return true
	})
}

func genFile(fieldNames []string) string {
	var b strings.Builder
	b.WriteString(`// Code generated by /verif/tools/instrument. DO NOT EDIT.

package ggql

import (
	"sort"
	"sync"
	"runtime"
	"unsafe"
)

var _ = runtime.Gosched

// VerifHook is implemented by the simulator's scheduler glue.
type VerifHook interface {
	// Lock acquires m cooperatively: try must be called when the scheduler
	// believes the lock free. name identifies the lock by its owner ("" if unknown).
	Lock(m unsafe.Pointer, name string, try func() bool)
	// Unlocked is called after the real unlock.
	Unlocked(m unsafe.Pointer)
	// TryLock is TryLock / TryRLock (shared) of the code under test.
	TryLock(m unsafe.Pointer, name string, shared bool, try func() bool) bool
	// Wait is called by an operation that would block on something other than
	// a mutex (channel, WaitGroup): the task is not picked again before some
	// other task has made progress.
	Wait(what string)
	// Atomic is a scheduling point in front of a sync/atomic operation.
	Atomic()
	// Unsupported reports an operation the simulator cannot model (the run ends
	// without verdict, exit 2): a send on an unbuffered channel is a rendezvous
	// of two blocked goroutines, which cooperative polling cannot produce.
	Unsupported(what string)
	// Go starts fn as a task of the simulator (a go statement of the code under
	// test); start must be called by the spawning goroutine.
	Go(fn func())
	// RLock / RUnlocked are the read side of a reader/writer lock: readers
	// exclude writers, not each other.
	RLock(m unsafe.Pointer, name string, try func() bool)
	RUnlocked(m unsafe.Pointer)
	// Access is called before a statement that reads / writes a watched field.
	Access(id int, addr func() unsafe.Pointer, write bool, site string)
	// MapOrder decides the iteration order of a map with n > 1 keys: the sorted
	// key list is rotated by the returned amount (0 <= r < n).
	MapOrder(n int) int
}

// VerifSimHook is nil outside simulated runs: the instrumented package then
// behaves exactly like the original.
var VerifSimHook VerifHook

// VerifFieldNames maps field ids to Struct.field names.
var VerifFieldNames = []string{
`)
	for _, n := range fieldNames {
		fmt.Fprintf(&b, "\t%q,\n", n)
	}
	b.WriteString(`}

// VerifMutex replaces sync.Mutex in the instrumented copy. It wraps a real
// sync.Mutex so that the race detector sees the true acquire/release edges.
type VerifMutex struct{ mu sync.Mutex }

func (m *VerifMutex) Lock() {
	if h := VerifSimHook; h != nil {
		h.Lock(unsafe.Pointer(m), "", m.mu.TryLock)
		return
	}
	m.mu.Lock()
}

func (m *VerifMutex) lockNamed(name func() string) {
	if h := VerifSimHook; h != nil {
		h.Lock(unsafe.Pointer(m), name(), m.mu.TryLock)
		return
	}
	m.mu.Lock()
}

func (m *VerifMutex) TryLock() bool {
	if h := VerifSimHook; h != nil {
		return h.TryLock(unsafe.Pointer(m), "", false, m.mu.TryLock)
	}
	return m.mu.TryLock()
}

func (m *VerifMutex) Unlock() {
	m.mu.Unlock()
	if h := VerifSimHook; h != nil {
		h.Unlocked(unsafe.Pointer(m))
	}
}

// VerifRWMutex replaces sync.RWMutex with the same semantics: any number of
// readers, or one writer.
type VerifRWMutex struct{ mu sync.RWMutex }

func (m *VerifRWMutex) Lock() {
	if h := VerifSimHook; h != nil {
		h.Lock(unsafe.Pointer(m), "", m.mu.TryLock)
		return
	}
	m.mu.Lock()
}

func (m *VerifRWMutex) Unlock() {
	m.mu.Unlock()
	if h := VerifSimHook; h != nil {
		h.Unlocked(unsafe.Pointer(m))
	}
}

func (m *VerifRWMutex) RLock() {
	if h := VerifSimHook; h != nil {
		h.RLock(unsafe.Pointer(m), "", m.mu.TryRLock)
		return
	}
	m.mu.RLock()
}

func (m *VerifRWMutex) RUnlock() {
	m.mu.RUnlock()
	if h := VerifSimHook; h != nil {
		h.RUnlocked(unsafe.Pointer(m))
	}
}

func (m *VerifRWMutex) TryLock() bool {
	if h := VerifSimHook; h != nil {
		return h.TryLock(unsafe.Pointer(m), "", false, m.mu.TryLock)
	}
	return m.mu.TryLock()
}

func (m *VerifRWMutex) TryRLock() bool {
	if h := VerifSimHook; h != nil {
		return h.TryLock(unsafe.Pointer(m), "", true, m.mu.TryRLock)
	}
	return m.mu.TryRLock()
}

// VerifOnce replaces sync.Once (same semantics; the wait for a Do in progress
// is cooperative).
type VerifOnce struct {
	mu   VerifMutex
	done bool
}

func (o *VerifOnce) Do(f func()) {
	o.mu.Lock()
	defer o.mu.Unlock()
	if !o.done {
		defer func() { o.done = true }()
		f()
	}
}

// VerifWaitGroup replaces sync.WaitGroup: Wait polls cooperatively, the real
// WaitGroup inside keeps the happens-before edges the race detector needs.
type VerifWaitGroup struct {
	wg sync.WaitGroup
	mu sync.Mutex
	n  int
}

func (w *VerifWaitGroup) Add(d int) {
	w.mu.Lock()
	w.n += d
	w.mu.Unlock()
	w.wg.Add(d)
}

func (w *VerifWaitGroup) Done() { w.Add(-1) }

func (w *VerifWaitGroup) Wait() {
	if h := VerifSimHook; h != nil {
		for {
			w.mu.Lock()
			z := w.n <= 0
			w.mu.Unlock()
			if z {
				break
			}
			h.Wait("sync.WaitGroup")
		}
	}
	w.wg.Wait()
}

// VerifCond replaces sync.Cond: Wait releases L, polls cooperatively until a
// Signal or Broadcast that came after it, and takes L again.
type VerifCond struct {
	L       sync.Locker
	mu      sync.Mutex
	gen     int
	tokens  int
	waiters int
	real    *sync.Cond
}

func verifNewCond(l sync.Locker) *VerifCond { return &VerifCond{L: l, real: sync.NewCond(l)} }

func (c *VerifCond) Wait() {
	h := VerifSimHook
	if h == nil {
		if c.real == nil {
			c.real = sync.NewCond(c.L)
		}
		c.real.Wait()
		return
	}
	c.mu.Lock()
	my := c.gen
	c.waiters++
	c.mu.Unlock()
	c.L.Unlock()
	for {
		c.mu.Lock()
		if c.gen != my {
			c.waiters--
			c.mu.Unlock()
			break
		}
		if c.tokens > 0 {
			c.tokens--
			c.waiters--
			c.mu.Unlock()
			break
		}
		c.mu.Unlock()
		h.Wait("sync.Cond")
	}
	c.L.Lock()
}

func (c *VerifCond) Signal() {
	if VerifSimHook == nil {
		if c.real != nil {
			c.real.Signal()
		}
		return
	}
	c.mu.Lock()
	if c.waiters > c.tokens {
		c.tokens++
	}
	c.mu.Unlock()
}

func (c *VerifCond) Broadcast() {
	if VerifSimHook == nil {
		if c.real != nil {
			c.real.Broadcast()
		}
		return
	}
	c.mu.Lock()
	c.gen++
	c.tokens = 0
	c.mu.Unlock()
}

// verifWait yields to the simulator from a polling loop (or to the Go
// scheduler outside simulated runs).
func verifWait(what string) {
	if h := VerifSimHook; h != nil {
		h.Wait(what)
		return
	}
	runtime.Gosched()
}

// verifAt stands in front of a sync/atomic operation: a scheduling point.
func verifAt[T any](v T) T {
	if h := VerifSimHook; h != nil {
		h.Atomic()
	}
	return v
}

// verifGo is a go statement of the code under test.
func verifGo(fn func()) {
	if h := VerifSimHook; h != nil {
		h.Go(fn)
		return
	}
	go fn()
}

// verifRecv is a channel receive outside select: it polls and yields to the
// simulator instead of blocking the goroutine.
func verifRecv[T any](ch <-chan T) T {
	if h := VerifSimHook; h != nil {
		for {
			select {
			case v := <-ch:
				return v
			default:
				h.Wait("channel receive")
			}
		}
	}
	return <-ch
}

func verifRecv2[T any](ch <-chan T) (T, bool) {
	if h := VerifSimHook; h != nil {
		for {
			select {
			case v, ok := <-ch:
				return v, ok
			default:
				h.Wait("channel receive")
			}
		}
	}
	v, ok := <-ch
	return v, ok
}

// verifSend is a channel send outside select.
func verifSend[T any](ch chan<- T, v T) {
	if h := VerifSimHook; h != nil {
		if cap(ch) == 0 && ch != nil {
			h.Unsupported("send on an unbuffered channel")
		}
		for {
			select {
			case ch <- v:
				return
			default:
				h.Wait("channel send")
			}
		}
	}
	ch <- v
}

// verifMapKeys replaces Go's randomised map iteration order by an order the
// simulator decides (any order is permitted by the language).
func verifMapKeys[K ~string, V any](m map[K]V) []K {
	keys := make([]K, 0, len(m))
	for k := range m {
		keys = append(keys, k)
	}
	sort.Slice(keys, func(i, j int) bool { return keys[i] < keys[j] })
	if h := VerifSimHook; h != nil && len(keys) > 1 {
		if r := h.MapOrder(len(keys)); 0 < r && r < len(keys) {
			keys = append(keys[r:], keys[:r]...)
		}
	}
	return keys
}

func verifAccess(id int, addr func() unsafe.Pointer, write bool, site string) {
	if h := VerifSimHook; h != nil {
		h.Access(id, addr, write, site)
	}
}
`)
	for _, om := range ownerMutexes {
		tn := "VerifMutex_" + om.Struct + "_" + om.Field
		name := `"` + om.Struct + "." + om.Field + `"`
		if om.HasN {
			name = `"` + om.Struct + `(" + o.N + ").` + om.Field + `"`
		}
		fmt.Fprintf(&b, `
// %[1]s is the mutex %[2]s.%[3]s, named after its owner.
type %[1]s struct{ VerifMutex }

func (m *%[1]s) Lock() {
	m.VerifMutex.lockNamed(func() string {
		o := (*%[2]s)(unsafe.Pointer(uintptr(unsafe.Pointer(m)) - unsafe.Offsetof(((*%[2]s)(nil)).%[3]s)))
		_ = o
		return %[4]s
	})
}
`, tn, om.Struct, om.Field, name)
	}
	return b.String()
}
