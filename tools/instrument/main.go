// Command instrument rewrites a scratch copy of pkg/ggql for the scheduler.
package main

func main() {}
