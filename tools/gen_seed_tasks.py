import json,os,subprocess,sys,re
wave=sys.argv[1]  # e.g. seed3-
props={json.loads(l)['id']:json.loads(l) for l in open('/verif/properties.jsonl')}
# earlier mechanisms per property from the seeded README
used={}
for l in open('/verif/seeded/README.md'):
    m=re.match(r'\| (C\d\d)-[^ ]* \| (C\d\d) \| (.*?) \| ',l)
    if m: used.setdefault(m.group(2),[]).append(m.group(3))
for pid in sys.argv[2:]:
    p=props[pid]
    d=f'/tmp/{wave}{pid}'
    os.makedirs(d+'/out',exist_ok=True)
    wt=d+'/wt'
    if not os.path.exists(wt):
        subprocess.check_call(['git','-C','/repo','worktree','add','-q','--detach',wt,'HEAD'])
    t=f"""# Task: write changes to a Go library that break one stated property yet survive its test suite

You are helping evaluate how good a verification effort is. The library is UHN/ggql, a pure-Go GraphQL
implementation. Your own scratch git worktree of it is at `{wt}` (work ONLY there and in `{d}/out`;
do not touch /repo or /verif, do not read anything under /verif).

Every shell call needs: `export GOFLAGS=-mod=mod GOPROXY=off GOSUMDB=off GOTOOLCHAIN=local` (no network).
The existing test suite: `cd {wt}/pkg/ggql && go test -vet=off -count=1 .` — two tests fail on the unchanged
tree in this sandbox and may be ignored: `TestParseHTTP` and `TestRootParseFSErr`. All others must keep passing.

## The property

**{p['id']} — {p['title']}**

Statement: {p['statement']}

Quantifier: {p['quantifier']['text']}

Why the existing tests cannot settle it: {p['why_tests_cant']}

Code it is anchored in: {json.dumps(p['anchors'].get('files'))}
Mechanisms: {json.dumps(p['anchors'].get('mechanism'))}
State: {json.dumps(p['anchors'].get('state',[]))}

## What to produce

Produce **three** different changes to the library (non-test `.go` files under `pkg/ggql`), each of which
 1. compiles, and the existing test suite (unedited) still passes with it (apart from the two tests named above);
 2. makes the library **violate the property above** — a realistic regression a maintainer could plausibly
    introduce (an optimisation, a refactoring, a cache, a narrowed or moved lock, an "obvious" simplification,
    a partial revert of an earlier bug fix — look at `git log` and CHANGELOG.md for what was fixed before);
 3. needs **something specific to manifest** — a particular interleaving of goroutines, a fault (reader / writer /
    resolver / subscriber error) at a particular point, a multi-step sequence of operations, an unusual input shape,
    or two cooperating sites that each look fine alone. NOT something ordinary use would expose at once.
    Prefer subtle over blunt: the harder it is to stumble on, the more useful it is.
 4. comes with a demonstration: a Go test file `demo_test.go` (package `ggql_test` or `ggql`, placed in `pkg/ggql`
    when run) whose test function name starts with `TestSeeded` and which **passes on the unchanged tree and fails
    with the change** — deterministically (if it depends on goroutine interleaving, force the interleaving with
    channels/hooks inside your test's resolvers/subscribers, or loop enough that it fails every time; `-race` may
    be required, say so).

The three changes must use **different mechanisms** from one another, and different from these, which
earlier rounds already used for this property (do not repeat them or trivial variations of them):
""" + "\n".join(f" - {u}" for u in used.get(pid,[])) + f"""

## Output format

For change n ∈ {{1,2,3}} write into `{d}/out/<n>/`:
 - `patch.diff` — `git diff` of the worktree against HEAD for that change alone (must apply with `git apply` to a
   clean checkout of HEAD; reset the worktree with `git checkout -- . && git clean -fd` between changes);
 - `demo_test.go` — the demonstration;
 - `README.txt` — what the change is, why it looks innocent, exactly what it needs in order to manifest, and the
   exact commands you ran (demo without the change: pass; demo with: fail; suite with: pass).

Do NOT use `git stash` (the stash is shared with other worktrees of this repository; other people work in those): keep changes as files (`git diff > file`, `git checkout -- .`, `git apply file`).

Verify all of it yourself before finishing. Leave the worktree clean (`git status` empty) at the end.
Your final message: a three-line summary (one line per change: mechanism and what it needs to manifest).
"""
    open(d+'/TASK.md','w').write(t)
    print(d, len(t))
