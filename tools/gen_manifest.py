#!/usr/bin/env python3
"""Writes /verif/MANIFEST.json from the table below (kept in one place so the file stays valid)."""
import json, os

CLAIMED = {
 # id: (level, engine, technique, text, note)
}
def claim(id, level, engine, technique, text, note, design):
    CLAIMED[id] = dict(level=level, engine=engine, technique=technique, text=text, note=note, design=design)

exec(open(os.path.join(os.path.dirname(__file__), "manifest_claims.py")).read())

NA = {
 "C01": "pure function (schema, data, document, operation, variables) -> data; no schedule, clock, fault or cross-call state for a simulator to drive (DESIGN 5.2)",
 "C02": "equality of three pure functions of the same inputs; the 'configurations' are resolver bindings, not schedules or faults (DESIGN 5.2)",
 "C04": "pure coercion of literals/variables to declared types; no state, no fault, no interleaving (DESIGN 5.2)",
 "C05": "pure output-coercion relation (declared type, returned value) -> JSON shape (DESIGN 5.2)",
 "C07": "shape and JSON validity of a response for every request/layout: input-only relation (DESIGN 5.2)",
 "C08": "type-condition applicability over type hierarchies: input-only relation (DESIGN 5.2)",
 "C09": "truth table of two directives over inputs; nothing to schedule or fail (DESIGN 5.2)",
 "C10": "static rejection of undefined names: input-only relation (DESIGN 5.2)",
 "C13": "validation rule catalogue over schema texts: input-only relation (DESIGN 5.2)",
 "C15": "print -> parse -> print fixpoint over schema texts; ggqlgen's file I/O has no seam and the property is about content, not crash safety (DESIGN 5.2)",
 "C17": "introspection equals schema: input-only relation (DESIGN 5.2)",
 "C18": "value text round trip: input-only relation (DESIGN 5.2)",
}
ALL = ["C%02d" % i for i in range(1, 21)]
checks = []
for pid in ALL:
    if pid not in CLAIMED:
        continue
    c = CLAIMED[pid]
    checks.append({
        "property_id": pid,
        "quick_cmd": "./run.sh check %s quick" % pid,
        "thorough_cmd": "./run.sh check %s thorough" % pid,
        "evidence_file": "/verif/evidence/%s.json" % pid,
        "replay_cmd_template": "./run.sh replay {path}",
        "engine": c["engine"],
        "level_claimed": {"category": c["level"], "text": c["text"], "design_ref": c["design"]},
        "level_note": c["note"],
        "technique": c["technique"],
    })
na = [{"property_id": p, "reason": NA.get(p, "not yet built in this session; see DESIGN.md")} for p in ALL if p not in CLAIMED]
m = {
 "version": 1,
 "setup_cmd": "./setup.sh",
 "hooks": {
  "guard": "verif",
  "enable": "no hook lives in /repo: every check copies /repo's working tree to a scratch directory and instruments the copy (tools/instrument rewrites sync.Mutex to a cooperative mutex and inserts scheduling points), built with -race -tags verifsim",
  "baseline_off_cmd": "cd /repo/pkg/ggql && GOFLAGS=-mod=mod GOPROXY=off GOSUMDB=off go test -vet=off -count=1 -json ./...",
  "source_commits": [],
  "add_only": True,
 },
 "engines": [
  {"name": "loadsim", "path": "checks/c14.go checks/c16.go workload/sdlgen.go workload/observe.go", "serves_properties": ["C14", "C16"], "kind_free_text": "seeded load histories on one Root with reader/fs fault injection, checked against a last-good-schema reference model"},
  {"name": "schedsim", "path": "sim/sched tools/instrument", "serves_properties": ["C12", "C20"], "kind_free_text": "seeded cooperative scheduler over real goroutines (one runs at a time) on an instrumented scratch copy, TSan as happens-before oracle through invisible hand-offs, porcupine for linearizability"},
  {"name": "seqsim", "path": "checks/c06.go checks/c11.go checks/c19.go", "serves_properties": ["C06", "C11", "C19"], "kind_free_text": "seeded operation histories with resolver / subscriber fault injection against executable reference models"},
  {"name": "iosim", "path": "sim/iosim checks/c03.go", "serves_properties": ["C03"], "kind_free_text": "fault enumeration over every reader offset / fs operation / writer call, crash and hang detection in child processes"},
 ],
 "checks": checks,
 "not_applicable": na,
 "notes": "Deterministic simulation with fault injection. One tape (VERIF_SEED -> splitmix64) decides every choice of a run; failing tapes are shrunk and stored as replay files under /verif/replays. Fixed defects and open findings are listed in /verif/known_findings.json.",
}
json.dump(m, open(os.path.join(os.path.dirname(__file__), "..", "MANIFEST.json"), "w"), indent=1)
print("claimed:", [c["property_id"] for c in checks])
