#!/bin/bash
# usage: store_seeded.sh <ID> <N> <property> "<needs>" "<caught-by>" "<ran>"
ID="$1"; N="$2"; PROP="$3"; NEEDS="$4"; CAUGHT="$5"; RAN="$6"
D=/verif/seeded/$ID-${SEEDTAG:-}$N; mkdir -p $D
cp ${SEEDPFX:-/tmp/seed-}$ID/out/$N/patch.diff $D/patch.diff
cp ${SEEDPFX:-/tmp/seed-}$ID/out/$N/demo*.go $D/ 2>/dev/null
cp ${SEEDPFX:-/tmp/seed-}$ID/out/$N/README.txt $D/README.txt
python3 - "$D" "$PROP" "$NEEDS" "$CAUGHT" "$RAN" <<'PY'
import json,sys
d,prop,needs,caught,ran=sys.argv[1:6]
json.dump({"property":prop,"origin":"sub-agent given only the property text and a scratch worktree","needs_to_manifest":needs,"caught_by":caught,"what_i_ran":ran},open(d+"/meta.json","w"),indent=1)
PY
echo stored $D
