#!/bin/bash
# usage: verify_seeded.sh <ID> <N> <check-ID> [secs] [extra go test flags]
# Confirms a sub-agent's seeded change in a scratch worktree (demo fails with it, passes without,
# suite passes with it), then runs our check against it (applied to /repo, reverted afterwards).
ID="$1"; N="$2"; CHECK="${3:-$1}"; SECS="${4:-10}"; EXTRA="${5:-}"
export GOFLAGS=-mod=mod GOPROXY=off GOSUMDB=off GOTOOLCHAIN=local
SRC=${SEEDPFX:-/tmp/seed-}$ID/out/$N
WT=$(mktemp -d /tmp/vseed-XXXX); rmdir $WT
git -C /repo worktree add -q --detach $WT HEAD || exit 9
cd $WT
DEMO=$(ls $SRC/demo_test.go $SRC/demo*.go 2>/dev/null | head -1)
cp $DEMO pkg/ggql/seeded_demo_test.go
TEST=$(grep -o 'func Test[A-Za-z0-9_]*' pkg/ggql/seeded_demo_test.go | head -1 | sed 's/func //')
echo "--- demo WITHOUT change ($TEST):"
(cd pkg/ggql && timeout 300 go test -vet=off -count=1 $EXTRA -run "Test.*[Ss]eed|$TEST" . 2>&1 | tail -4)
git apply $SRC/patch.diff || { echo "PATCH DOES NOT APPLY"; }
echo "--- demo WITH change:"
(cd pkg/ggql && timeout 300 go test -vet=off -count=1 $EXTRA -run "Test.*[Ss]eed|$TEST" . 2>&1 | grep -v "^\s*$" | tail -8)
echo "--- existing suite WITH change (failures):"
rm pkg/ggql/seeded_demo_test.go
(cd pkg/ggql && go test -vet=off -count=1 . 2>&1 | grep -E "^(--- FAIL|ok|FAIL|panic)" | head)
cd /verif
git -C /repo worktree remove --force $WT
echo "--- our check $CHECK against the change:"
WIDTH=300 /verif/tools/try_mutant.sh $SRC/patch.diff $CHECK $SECS | grep -v "^KNOWN"
