#!/bin/bash
# usage: debug_one.sh <patch|-> <ID> <run seed> [secs]
# Builds the harness against a scratch worktree of /repo (with the patch applied)
# and executes one run; after <secs> the process gets SIGQUIT so that a hang
# shows its goroutine stacks. Everything is removed afterwards.
export GOFLAGS=-mod=mod GOPROXY=off GOSUMDB=off GOTOOLCHAIN=local
P="$1"; ID="$2"; SEED="$3"; SECS="${4:-20}"
D=$(mktemp -d /tmp/dbg-XXXX); WT=$D/wt
git -C /repo worktree add -q --detach $WT HEAD || exit 9
[ "$P" != "-" ] && { git -C $WT apply "$P" || exit 9; }
mkdir -p $D/ggql/pkg/ggql $D/bin
cp $WT/go.mod $D/ggql/
for f in $WT/pkg/ggql/*.go; do case $f in *_test.go) ;; *) cp $f $D/ggql/pkg/ggql/;; esac; done
git -C /repo worktree remove --force $WT
cd /verif
sed "s#=> /repo#=> $D/ggql#" go.mod > $D/go.mod; cp go.sum $D/
flags=()
case "$ID" in C12|C20)
	go build -o $D/bin/instrument ./tools/instrument && sed -i 's/^go 1\.[0-9]*$/go 1.18/' $D/ggql/go.mod && $D/bin/instrument $D/ggql/pkg/ggql > $D/instrument.json || exit 9
	export VERIF_BUILD_INFO="$(cat $D/instrument.json)"
	export GORACE="halt_on_error=0 suppress_equal_stacks=0 suppress_equal_addresses=0 history_size=2 log_path=$D/race"
	flags=(-race -tags verifsim);;
esac
go build -modfile=$D/go.mod "${flags[@]}" -o $D/bin/verif ./cmd/verif || exit 9
cd $D && VERIF_SCRATCH=$D VERIF_DIR=$D timeout -s QUIT $SECS ./bin/verif one $ID $SEED quick 2>&1 | grep -v "^\s*$" | head -${LINES_OUT:-150}
cd /; rm -rf $D
