#!/bin/bash
# usage: verify_wave.sh <prefix> <ID> <count> [secs] [race-for-N...]
PFX="$1"; ID="$2"; CNT="$3"; SECS="${4:-10}"
for n in $(seq 1 $CNT); do
	echo "=========== $ID/$n"
	SEEDPFX=$PFX /verif/tools/verify_seeded.sh $ID $n $ID $SECS 2>&1 | cut -c1-330 | grep -v "^\s*$"
done
