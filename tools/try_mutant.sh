#!/bin/bash
# usage: try_mutant.sh <patch> <ID> [secs]  -- applies patch to /repo, runs the check into a scratch VERIF_DIR, reverts
P="$1"; ID="$2"; SECS="${3:-10}"
git -C /repo apply "$P" || { echo "APPLY FAILED $P"; exit 9; }
OUT=$(mktemp -d /tmp/vmut-XXXX)
cp /verif/known_findings.json $OUT/ 2>/dev/null
VERIF_DIR=$OUT VERIF_SECS=$SECS /verif/run.sh check "$ID" quick 2>&1 | grep -E "^(VIOLATION|FATAL|OK|SUMMARY|KNOWN)" | cut -c1-${WIDTH:-400}
git -C /repo checkout -- .
rm -rf $OUT
