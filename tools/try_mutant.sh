#!/bin/bash
# usage: try_mutant.sh <patch> <ID> [secs]
# Applies the patch to a scratch worktree of /repo HEAD (never to /repo itself, so that
# several of these can run side by side), runs the check against it with VERIF_REPO
# into a scratch VERIF_DIR, and removes both.
P="$1"; ID="$2"; SECS="${3:-10}"
VROOT="$(cd "$(dirname "${BASH_SOURCE[0]}")/.." && pwd)"  # the /verif this script belongs to (a snapshot when run through vp run)
WT=$(mktemp -d /tmp/mutwt-XXXX); rmdir $WT
git -C /repo worktree add -q --detach $WT HEAD || { echo "WORKTREE FAILED"; exit 9; }
git -C $WT apply "$P" || { echo "APPLY FAILED $P"; git -C /repo worktree remove --force $WT; exit 9; }
OUT=$(mktemp -d /tmp/vmut-XXXX)
cp $VROOT/known_findings.json $OUT/ 2>/dev/null
VERIF_REPO=$WT VERIF_DIR=$OUT VERIF_SECS=$SECS $VROOT/run.sh check "$ID" quick 2>&1 | grep -E "^(VIOLATION|FATAL|OK|SUMMARY|KNOWN)" | cut -c1-${WIDTH:-400}
git -C /repo worktree remove --force $WT
rm -rf $OUT
