#!/bin/bash
# Runs every hand-written and seeded patch against the check of its property and
# reports CAUGHT / MISSED, and every benign patch, which must stay QUIET.
# usage: regress_mutants.sh [secs-per-patch] [parallel jobs] [workers per job]
SECS="${1:-12}"; JOBS="${2:-4}"; export VERIF_WORKERS="${3:-4}"
VROOT="$(cd "$(dirname "${BASH_SOURCE[0]}")/.." && pwd)"
cd $VROOT
export VROOT SECS
one() { # kind patch id
	kind="$1"; p="$2"; id="$3"
	out=$(WIDTH=160 tools/try_mutant.sh "$p" "$id" "$SECS")
	if [ "$kind" = benign ]; then
		if echo "$out" | grep -q "^OK"; then echo "QUIET   $id  $p"; else echo "ALARM   $id  $p"; echo "$out" | sed 's/^/        /'; fi
	else
		if echo "$out" | grep -q "^VIOLATION"; then echo "CAUGHT  $id  $p  $(echo "$out" | grep -c '^VIOLATION') classes"; else echo "MISSED  $id  $p"; echo "$out" | sed 's/^/        /'; fi
	fi
}
export -f one
{
	for p in mutants/*.patch; do
		echo "mutant $VROOT/$p $(basename $p | cut -c1-3 | tr a-z A-Z)"
	done
	for d in seeded/*/; do
		id=$(python3 -c "import json,sys; m=json.load(open('$d/meta.json')); print(m.get('check', m['property']))")
		if grep -q '"caught_by": "NOT CAUGHT' $d/meta.json; then echo "SKIPPED $id  $d (recorded as outside the property)" >&2; continue; fi
		echo "mutant $VROOT/${d}patch.diff $id"
	done
	for p in benign/*.patch; do
		echo "benign $VROOT/$p $(basename $p | cut -c1-3 | tr a-z A-Z)"
	done
} | xargs -P "$JOBS" -L 1 bash -c 'one "$0" "$1" "$2"'
