#!/bin/bash
# Runs every hand-written and seeded patch against the check of its property and
# reports CAUGHT / MISSED. usage: regress_mutants.sh [secs-per-patch]
SECS="${1:-12}"
VROOT="$(cd "$(dirname "${BASH_SOURCE[0]}")/.." && pwd)"
cd $VROOT
fail=0
run() { # patch id
	out=$(WIDTH=160 tools/try_mutant.sh "$1" "$2" "$SECS")
	if echo "$out" | grep -q "^VIOLATION"; then echo "CAUGHT  $2  $1  $(echo "$out" | grep -c '^VIOLATION') classes"; else echo "MISSED  $2  $1"; echo "$out" | sed 's/^/        /'; fail=1; fi
}
for p in mutants/*.patch; do
	id=$(basename $p | cut -c1-3 | tr a-z A-Z)
	run $VROOT/$p $id
done
for d in seeded/*/; do
	id=$(python3 -c "import json,sys; m=json.load(open('$d/meta.json')); print(m.get('check', m['property']))")
	if grep -q '"caught_by": "NOT CAUGHT' $d/meta.json; then echo "SKIPPED $id  $d (recorded as outside the property)"; continue; fi
	run $VROOT/${d}patch.diff $id
done
# refactorings that keep the property: must stay quiet
for p in benign/*.patch; do
	id=$(basename $p | cut -c1-3 | tr a-z A-Z)
	out=$(WIDTH=160 tools/try_mutant.sh $VROOT/$p $id "$SECS")
	if echo "$out" | grep -q "^OK"; then echo "QUIET   $id  $p"; else echo "ALARM   $id  $p"; echo "$out" | sed 's/^/        /'; fail=1; fi
done
exit $fail
