//go:build verifsim

package checks

import (
	"fmt"
	"strconv"
	"strings"

	"github.com/uhn/ggql/pkg/ggql"

	"verif/sim/core"
	"verif/sim/iosim"
	"verif/sim/sched"
	"verif/sim/tape"
	"verif/workload"
)

// C12: concurrent requests on one cold root. N caller tasks parse and resolve
// requests against the same freshly loaded root under the seeded scheduler;
// oracles: race detector (invisible hand-offs) + vector clocks over the
// library's lock events, the scheduler's deadlock check, and isolation: every
// response equals the response the same request gets alone on its own cold
// root of the same configuration.
type C12 struct{}

func init() { register(C12{}) }

func (C12) ID() string      { return "C12" }
func (C12) Level() string   { return "exploration" }
func (C12) NeedsRace() bool { return true }
func (C12) Rule() string {
	return "a case is one simulated run: 2-10 caller tasks x 1-3 generated requests (reflection fields and methods, unions, interface lists, fragments, variables, introspection, deliberate field errors) " +
		"on one cold root (reflection / interface-resolver / any-resolver strategy, tape-drawn data graph) with a tape-drawn schedule (random / sticky / PCT, coarse or fine points); " +
		"non-trivial = more task switches than tasks or a lock attempt that found the lock held; distinct = distinct hashes of (strategy, request texts, (task, site) sequence at switch points)"
}
func (C12) Assumptions() []string {
	return []string{
		"the race detector can miss a pair that the Go runtime orders through its own internals (sync.Pool in fmt, reflect caches); it never invents one. The vector-clock check over the library's own lock events covers the watch-listed fields deterministically",
		"isolation baseline = the same request resolved alone on a fresh cold root of the same configuration over the same (read-only) data graph, computed twice; a case whose two baselines differ is discarded and counted",
		"reflection roots register Dog and Bird up front (interface-typed fields need it) and bind every other type lazily by name: one Go type per GraphQL type, so first-come binding cannot legitimately change answers",
	}
}
func (C12) Components() map[string]string {
	return map[string]string{
		"pkg/ggql (executable parser, resolver, reflection binding, introspection)": "real, instrumented scratch copy",
		"caller goroutines":      "real goroutines, one runnable at a time, picked by the tape",
		"data graph / resolvers": "stub (harness zoo: Go structs + methods for reflection, wrappers for the interface and any strategies)",
		"race oracle":            "Go race detector with hand-offs hidden by runtime.RaceDisable + deterministic vector clocks over lock events",
	}
}

func resolveLite(root *ggql.Root, req *workload.Request, vars map[string]interface{}) (out string) {
	defer func() {
		if r := recover(); r != nil {
			out = "PANIC: " + fmt.Sprint(r)
		}
	}()
	return workload.CanonLite(root.ResolveString(req.Src, req.Op, vars))
}

// request delivery modes (how the text of a request reaches the library)
const (
	c12String     = iota // ResolveString
	c12Reader            // ResolveReader over a paced reader: every Read is a scheduling point
	c12ReaderFail        // ... that fails at byte 0, 1 or 2 (a request refused at its first bytes)
	c12BrokenBOM         // ... whose text starts with a broken byte order mark
	c12Bytes             // ResolveBytes
)

// resolveVia resolves a request through the delivery mode drawn for it. yield
// is called at every Read of the reader modes.
func resolveVia(root *ggql.Root, req *workload.Request, mode, k int, vars map[string]interface{}, yield func()) (out string) {
	if mode == c12String {
		return resolveLite(root, req, vars)
	}
	if mode == c12Bytes {
		defer func() {
			if r := recover(); r != nil {
				out = "PANIC: " + fmt.Sprint(r)
			}
		}()
		return workload.CanonLite(root.ResolveBytes([]byte(req.Src), req.Op, vars))
	}
	defer func() {
		if r := recover(); r != nil {
			out = "PANIC: " + fmt.Sprint(r)
		}
	}()
	src := req.Src
	plan := iosim.Plan{}
	switch mode {
	case c12ReaderFail:
		plan = iosim.Plan{Kind: iosim.ErrAt, K: k}
	case c12BrokenBOM:
		src = "\xEF\xBB " + src
	}
	r := iosim.NewReader([]byte(src), plan)
	r.OnRead = yield
	return workload.CanonLite(root.ResolveReader(r, req.Op, vars))
}

func scalarOnly(v map[string]interface{}) bool {
	for _, x := range v {
		switch x.(type) {
		case map[string]interface{}, []interface{}:
			return false
		}
	}
	return true
}

func copyVars(v map[string]interface{}) map[string]interface{} {
	if v == nil {
		return nil
	}
	out := make(map[string]interface{}, len(v))
	for k, x := range v {
		out[k] = copyVal(x)
	}
	return out
}

// copyVal copies a variable value deeply: the library coerces variable values
// in place, and every request owns its variables.
func copyVal(v interface{}) interface{} {
	switch tv := v.(type) {
	case map[string]interface{}:
		out := make(map[string]interface{}, len(tv))
		for k, x := range tv {
			out[k] = copyVal(x)
		}
		return out
	case []interface{}:
		out := make([]interface{}, len(tv))
		for i, x := range tv {
			out[i] = copyVal(x)
		}
		return out
	}
	return v
}

// CrashIsViolation implements core.CrashChecker: a run that kills the process
// or computes without end counts against the property ("each request's
// response is identical to the response it gets when run alone" needs a
// response), see HangNeedsLibraryFrame for what is not counted.
func (C12) CrashIsViolation() string { return "C12" }

// RunTimeout implements core.CrashChecker (a run takes milliseconds).
func (C12) RunTimeout() float64 { return 60 }

// HangNeedsLibraryFrame implements core.HangAttributor: only a child whose
// goroutine dump shows library code computing counts; everything parked is
// harness trouble (exit 2).
func (C12) HangNeedsLibraryFrame() bool { return true }

func (c C12) Run(t *tape.Tape, opt core.RunOpt) (res core.Result) {
	cfg := sched.DrawConfig(t)
	cfg.MaxSteps = 400000
	s := sched.New(t, cfg)
	if t.Bool(1, 5) {
		// an application that lowered the library's depth limit (deep parts of a
		// response are cut off - the same way alone and among other requests)
		oldDepth := ggql.MaxResolveDepth
		ggql.MaxResolveDepth = 3 + t.Draw(4)
		defer func() { ggql.MaxResolveDepth = oldDepth }()
		res.Count("probe_lowered_depth_limit", 1)
	}
	strat := []workload.Strategy{workload.StratReflect, workload.StratReflect, workload.StratMixed, workload.StratInterface, workload.StratAny}[t.Draw(5)]
	q := workload.GenZoo(t)
	if strat == workload.StratMixed {
		workload.DrawMixed(t, q)
	}
	ntasks := 2 + t.Draw(9)
	if t.Bool(1, 2) {
		ntasks = 2 + t.Draw(3)
	} else if opt.Tier == "thorough" && t.Bool(1, 3) {
		ntasks = 8 + t.Draw(17) // up to 24 callers: "N up to the core count and beyond"
	}
	// a small pool of requests, so that tasks collide on the same fields
	pool := make([]*workload.Request, 1+t.Draw(4))
	pathMode := t.Bool(1, 2)
	// A union member is found by the Go type of the object: on a mixed root the
	// union-typed fields are only used when every member type is raw (an INode
	// has one Go type for everything and is not a member of any union; what ggql
	// answers for such an object is outside the property: the data is not typed
	// by the schema).
	noUnion := strat == workload.StratMixed && !(q.Raw["Dog"] && q.Raw["Bird"] && q.Raw["Keeper"] && q.Raw["Cell"])
	// half of the runs keep to the core fields (tasks then collide more often on
	// the same first-use windows), the other half mixes in the special ones
	extras := t.Bool(1, 2)
	for i := range pool {
		pool[i] = workload.GenRequest(t, workload.ReqOpt{Strat: strat, MultiOp: !pathMode && t.Bool(1, 4), Introspection: !pathMode, NoUnion: noUnion, Ghost: extras && t.Bool(1, 2), Relay: extras && t.Bool(1, 2), Pick: extras && t.Bool(1, 2), Nick: extras && t.Bool(1, 2), Span: extras && t.Bool(1, 2), Blob: extras && t.Bool(1, 2), Call: extras && t.Bool(1, 2), Tune: extras && t.Bool(1, 2), Stamps: extras && t.Bool(1, 2),
			VarInLiteral: strat != workload.StratReflect, ShuffleArgs: true, MaxDepth: 2 + t.Draw(3), PathMode: pathMode})
	}
	if strat == workload.StratReflect && t.Bool(1, 8) {
		// walks along the cycles of the type graph from different ends: first-use
		// binding of the same types in opposite orders
		pool = pool[:0]
		for k := 0; k < 2+t.Draw(2); k++ {
			pool = append(pool, &workload.Request{Src: workload.CycleRequests[t.Draw(len(workload.CycleRequests))]})
		}
		res.Count("runs_type_cycle_requests", 1)
	} else if t.Bool(1, 12) {
		// introspection requests that differ only inside a same-named fragment
		pool = pool[:0]
		for k := 0; k < 2+t.Draw(2); k++ {
			pool = append(pool, &workload.Request{Src: workload.MetaTwinRequests[t.Draw(len(workload.MetaTwinRequests))]})
		}
	} else if strat == workload.StratReflect && t.Bool(1, 10) {
		// one Go struct behind two GraphQL types, by value and by pointer
		pool = pool[:0]
		for k := 0; k < 2+t.Draw(2); k++ {
			pool = append(pool, &workload.Request{Src: workload.LabelRequests[t.Draw(len(workload.LabelRequests))]})
		}
	} else if strat == workload.StratReflect && t.Bool(1, 10) {
		// a union-typed field that yields a value of an unnamed Go type (an
		// application mistake): what it is answered depends on which members are
		// bound, so its response is not compared; every other request, and the
		// race and deadlock oracles, are as always
		pool = pool[:0]
		for k := 0; k < 3+t.Draw(3); k++ {
			pool = append(pool, &workload.Request{Src: workload.OddRequests[t.Draw(len(workload.OddRequests))]})
		}
		res.Count("probe_union_field_with_value_of_unnamed_go_type", 1)
	} else if strat == workload.StratReflect && t.Bool(1, 8) {
		// two Go structs behind one GraphQL type, whichever is seen first. The
		// library looks a Go field up by name in the value at hand, so plain
		// fields that both structs have resolve the same in either order; fields
		// or methods only one of them has would not (first come, first bound),
		// which is why these runs keep to the fixed requests.
		pool = pool[:0]
		for k := 0; k < 2+t.Draw(3); k++ {
			pool = append(pool, &workload.Request{Src: workload.AltRequests[t.Draw(len(workload.AltRequests))]})
		}
	}
	// a quarter of the runs hand ONE variables map instance to every caller
	// (scalar values only: the library coerces nested values in place, and a
	// request owns those)
	shareVars := t.Bool(1, 4)
	varsFor := func(r *workload.Request) map[string]interface{} {
		if shareVars && scalarOnly(r.Vars) {
			return r.Vars
		}
		return copyVars(r.Vars)
	}
	// how each request of the pool reaches the library
	modes := make([]int, len(pool))
	modeK := make([]int, len(pool))
	for i := range pool {
		switch t.Draw(10) {
		case 0, 1:
			modes[i] = c12Reader
		case 2:
			modes[i], modeK[i] = c12ReaderFail, t.Draw(3)
		case 3:
			modes[i] = c12BrokenBOM
		case 4, 5:
			modes[i] = c12Bytes
		}
	}
	base := make([]string, len(pool))
	for i, r := range pool {
		var b [2]string
		for k := range b {
			zb, err := workload.NewZoo(q, strat)
			if err != nil {
				res.Fatal = err.Error()
				return
			}
			// alone, but under the scheduler (one task): a request that blocks on
			// a lock it holds itself (a resolver issuing a nested request while
			// the library holds a lock across the call) is then reported as the
			// deadlock it is instead of hanging the worker
			cfgB := cfg
			cfgB.Fine = false
			cfgB.Direct = nil
			sb := sched.New(t, cfgB)
			sb.Go("alone", func(tk *sched.Task) {
				b[k] = resolveVia(zb.Root, r, modes[i], modeK[i], varsFor(r), func() { sb.Point(sched.KCallout, "Read", "") })
			})
			racesB := runScheduled(sb)
			if sb.Deadlock != "" || sb.Runaway {
				res.Evaluations = 1
				res.Sig = core.Hash64("solo-deadlock", r.Src)
				if opt.WantSample {
					res.Sample = map[string]interface{}{"strategy": strat.String(), "request alone on a cold root": r.Src, "schedule": sb.Trace(60)}
				}
				schedVerdicts(&res, "C12", sb, racesB)
				return
			}
		}
		if b[0] != b[1] {
			res.Inconclusive++
			res.Count("baseline_not_repeatable_discarded", 1)
			res.Evaluations = 1
			res.Sig = core.Hash64("discarded", r.Src)
			return
		}
		base[i] = b[0]
	}
	// built after the baselines: nested requests (relay) go to the root of the
	// zoo built last over the graph
	z, err := workload.NewZoo(q, strat)
	if err != nil {
		res.Fatal = "cannot build the zoo root: " + err.Error()
		return
	}
	type slot struct {
		req  int
		resp string
	}
	// the plan (which task resolves which requests) is drawn once; every pass
	// executes it on a fresh cold root
	taskReqs := make([][]int, ntasks)
	var plan []string
	for ti := 0; ti < ntasks; ti++ {
		n := 1 + t.Draw(3)
		idxs := make([]int, n)
		for k := range idxs {
			idxs[k] = t.Draw(len(pool))
		}
		taskReqs[ti] = idxs
		plan = append(plan, "t"+strconv.Itoa(ti)+": requests "+fmt.Sprint(idxs))
	}
	var results [][]slot
	pass := func(zr *workload.Zoo, sc *sched.Sched) []raceReport {
		results = make([][]slot, ntasks)
		for ti := 0; ti < ntasks; ti++ {
			ti := ti
			idxs := taskReqs[ti]
			sc.Go("t"+strconv.Itoa(ti), func(tk *sched.Task) {
				for _, ri := range idxs {
					r := pool[ri]
					sc.Stamp("invoke|req"+strconv.Itoa(ri), "call")
					out := resolveVia(zr.Root, r, modes[ri], modeK[ri], varsFor(r), func() { sc.Point(sched.KCallout, "Read", "") })
					sc.Stamp("return|req"+strconv.Itoa(ri), "call")
					results[ti] = append(results[ti], slot{req: ri, resp: out})
				}
			})
		}
		return runScheduled(sc)
	}
	races := pass(z, s)
	res.Evaluations = 1
	res.Steps = s.Steps
	var srcs []string
	for _, r := range pool {
		srcs = append(srcs, r.Src)
	}
	res.Sig = core.Hash64(strat.String(), strings.Join(srcs, "\x00"), strings.Join(plan, ";"), strconv.FormatUint(s.InterleavingHash(), 16))
	res.NonTrivial = s.Switches > ntasks || s.Contended > 0
	res.Count("probe_lock_contended_first_use_window", s.Contended)
	res.Count("strategy_"+strat.String(), 1)
	res.Count("sched_switches", s.Switches)
	if cfg.Fine {
		res.Count("runs_fine_granularity", 1)
	} else {
		res.Count("runs_coarse_granularity", 1)
	}
	if opt.WantSample {
		tail := 50
		if opt.Replay {
			tail = 0
		}
		var reqs []string
		for i, r := range pool {
			reqs = append(reqs, fmt.Sprintf("req%d op=%q vars=%v\n%s", i, r.Op, r.Vars, r.Src))
		}
		res.Sample = map[string]interface{}{"strategy": strat.String(), "policy": cfg.String(), "plan": plan, "requests": reqs, "schedule": s.Trace(tail)}
	}
	schedVerdicts(&res, "C12", s, races)
	if s.Deadlock != "" || s.Runaway || res.Fatal != "" {
		return
	}
	// Deadlock-directed passes: if two tasks took two locks in opposite orders
	// (without a common guard) the run is repeated on a fresh cold root with the
	// scheduler holding the first task back between its two acquisitions until
	// the second one holds its first lock. Only a deadlock that really happens
	// is reported.
	cycles := s.LockCycles()
	res.Count("probe_lock_order_inversions_seen", len(cycles))
	for ci, cyc := range cycles {
		if ci >= 2 {
			break
		}
		cyc := cyc
		z2, err := workload.NewZoo(q, strat)
		if err != nil {
			res.Fatal = err.Error()
			return
		}
		cfg2 := cfg
		cfg2.Direct = &cyc
		s2 := sched.New(t, cfg2)
		races2 := pass(z2, s2)
		res.Evaluations++
		res.Steps += s2.Steps
		res.Count("probe_deadlock_directed_passes", 1)
		if s2.Deadlock != "" {
			if opt.WantSample {
				if m, ok := res.Sample.(map[string]interface{}); ok {
					m["directed_pass"] = fmt.Sprintf("task %d held back between %s and %s until task %d holds %s", cyc.TaskA, cyc.First, cyc.Second, cyc.TaskB, cyc.Second)
					m["directed_schedule"] = s2.Trace(80)
				}
			}
			schedVerdicts(&res, "C12", s2, races2)
			return
		}
	}
	for ti := range results {
		for _, sl := range results[ti] {
			if strings.Contains(pool[sl.req].Src, "odd {") {
				continue // see OddRequests
			}
			if sl.resp != base[sl.req] {
				res.Violate("C12", "response_differs_from_run_alone",
					fmt.Sprintf("task %d, request %d (%s strategy): concurrent response differs from the response of the same request alone on a cold root:\nconcurrent: %s\nalone:      %s\nrequest:\n%s",
						ti, sl.req, strat, sl.resp, base[sl.req], pool[sl.req].Src), nil)
			}
		}
	}
	return
}
