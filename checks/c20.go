//go:build verifsim

package checks

import (
	"fmt"
	"github.com/uhn/ggql/pkg/ggql"
	"sort"
	"strconv"
	"strings"
	"time"

	"github.com/anishathalye/porcupine"

	"verif/sim/core"
	"verif/sim/sched"
	"verif/sim/tape"
	"verif/workload"
)

// C20: the subscription registry under concurrent publish / subscribe /
// unsubscribe. Tasks are real goroutines driven one at a time by the seeded
// scheduler on the instrumented copy of pkg/ggql; oracles are the race
// detector (invisible hand-offs), the vector-clock check over the library's own
// locks, the scheduler's deadlock check, direct invariants over the event log
// and linearizability of the call history (porcupine) against the sequential
// registry model with publish split into deliver and clean-up.
type C20 struct{}

func init() { register(C20{}) }

func (C20) ID() string      { return "C20" }
func (C20) Level() string   { return "exploration" }
func (C20) NeedsRace() bool { return true }
func (C20) Rule() string {
	return "a case is one simulated run: 2-6 caller tasks x 1-4 registry operations (subscribe / publish / publish from a mutation resolver / unsubscribe) over a small id space, " +
		"with a tape-drawn schedule (policy random / sticky / PCT, coarse or fine points), subscriber failure plans and pre-registered subscribers; " +
		"non-trivial = at least two tasks were switched mid-call (more switches than tasks) or a lock attempt found the registry lock held; " +
		"distinct = distinct hashes of (operation plan, (task, site) sequence at switch points)"
}
func (C20) Assumptions() []string {
	return []string{
		"the race detector is blind to pairs ordered through Go runtime internals it treats as synchronisation (sync.Pool inside fmt, reflect caches): races can be missed, never invented; the vector-clock check over the library's own lock events is the deterministic complement on the watch-listed fields",
		"sequential specification: ordered registry; publish = deliver (call start .. last Match/Send call-out) then clean-up (.. call return), delivery outcomes are environment inputs",
		"subscribers, event objects and the data graph are harness stubs; Match is exact-or-wildcard",
	}
}
func (C20) Components() map[string]string {
	return map[string]string{
		"pkg/ggql (Root.subscribe/Unsubscribe/AddEvent, ResolveExecutable, resolver)": "real, instrumented scratch copy (sync.Mutex -> cooperative VerifMutex wrapping a real sync.Mutex; verifAccess scheduling points)",
		"caller goroutines":                "real goroutines, one runnable at a time, picked by the tape",
		"subscribers / events / resolvers": "stub (harness)",
		"race oracle":                      "Go race detector (TSan) with hand-offs hidden by runtime.RaceDisable + deterministic vector clocks over lock events",
		"linearizability":                  "porcupine v1.3.0",
	}
}

type c20Op struct {
	Kind  string // sub pub pubmut unsub
	Sid   int
	Topic string
	N     int
	// Exe: the subscription request is made through the parsed document that
	// the task keeps and resolves once per subscriber
	Exe bool
}

func (o c20Op) String() string {
	switch o.Kind {
	case "sub":
		if o.Exe {
			return "sub(" + strconv.Itoa(o.Sid) + ", through the kept parsed document)"
		}
		return "sub(" + strconv.Itoa(o.Sid) + ")"
	case "unsub":
		return "unsub(" + strconv.Quote(o.Topic) + ")"
	}
	return o.Kind + "(" + strconv.Quote(o.Topic) + "," + strconv.Itoa(o.N) + ")"
}

type c20Call struct {
	Task     int
	Op       c20Op
	Inv, Ret uint64
	Cnt      int
	Err      bool
	Resp     string
	// filled from the log
	Matches  []c20Ev
	Sends    []c20Ev
	Cleanups []c20Ev
}

type c20Ev struct {
	Seq   uint64
	Sid   int
	OK    bool
	Value string
}

type schedEnv struct{ s *sched.Sched }

//go:norace
func (e schedEnv) Event(kind, detail string) uint64 {
	return e.s.Point(sched.KCallout, kind+"|"+detail, "SimSub."+kind)
}

var c20Topics = []string{"a", "b", "c"}

// CrashIsViolation implements core.CrashChecker: a run that kills the process
// or computes without end counts against the property ("each request's
// response is identical to the response it gets when run alone" needs a
// response), see HangNeedsLibraryFrame for what is not counted.
func (C20) CrashIsViolation() string { return "C20" }

// RunTimeout implements core.CrashChecker (a run takes milliseconds; the linearizability check of a history is given up to 30 s).
func (C20) RunTimeout() float64 { return 90 }

// HangNeedsLibraryFrame implements core.HangAttributor: only a child whose
// goroutine dump shows library code computing counts; everything parked is
// harness trouble (exit 2).
func (C20) HangNeedsLibraryFrame() bool { return true }

func (c C20) Run(t *tape.Tape, opt core.RunOpt) (res core.Result) {
	cfg := sched.DrawConfig(t)
	s := sched.New(t, cfg)
	w, err := workload.NewSubWorld(schedEnv{s})
	if err != nil {
		res.Fatal = "cannot load the subscription schema: " + err.Error()
		return
	}
	w.ResolverEvents = t.Bool(1, 2)
	w.BadEvents = t.Bool(1, 3)
	w.ListEvents = t.Bool(1, 5)
	w.NilEvents = t.Bool(1, 3)
	if t.Bool(1, 4) {
		w.ResolverReenters = 1 + t.Draw(2)
		res.Count("probe_subscription_resolver_calls_the_registry", 1)
	}
	family := t.Draw(7)
	nextSid, nextEv := 1, 1
	newSub := func(topic string) *workload.SimSub {
		sb := &workload.SimSub{ID: nextSid, Topic: topic, SelIndex: t.Draw(len(workload.SubSelections)), Alias: t.Bool(1, 3), Named: t.Bool(1, 3), UseVar: t.Bool(1, 2)}
		nextSid++
		if t.Bool(1, 3) {
			sb.FailFrom = 1 + t.Draw(2)
			sb.Dropped = t.Bool(1, 2)
			sb.TimeoutErr = t.Bool(1, 3)
			sb.EmptyGroupErr = !sb.TimeoutErr && t.Bool(1, 4)
		}
		sb.ByValue = t.Bool(1, 4)
		sb.Marks = t.Bool(1, 3)
		w.AddSub(sb)
		return sb
	}
	topic := func() string {
		if t.Bool(1, 6) {
			return ""
		}
		return c20Topics[t.Draw(len(c20Topics))]
	}
	var pre []int
	var plans [][]c20Op
	var sharedExe *ggql.Executable
	preExe := map[int]bool{}
	sharedOp := ""
	switch family {
	case 0: // websocket pattern: a connection reader unsubscribes its id (twice) while a resolver publishes and the connection drops
		sb := newSub("a")
		sb.FailFrom, sb.Dropped = 1+t.Draw(2), true
		other := newSub(topic())
		pre = append(pre, sb.ID)
		if t.Bool(1, 2) {
			pre = append(pre, other.ID)
		}
		plans = append(plans, []c20Op{{Kind: "unsub", Topic: "a"}, {Kind: "unsub", Topic: "a"}})
		var pubs []c20Op
		for i := 0; i < 2+t.Draw(2); i++ {
			k := "pub"
			if t.Bool(1, 3) {
				k = "pubmut"
			}
			pubs = append(pubs, c20Op{Kind: k, Topic: "a", N: nextEv})
			nextEv++
		}
		plans = append(plans, pubs)
		if t.Bool(1, 2) {
			plans = append(plans, []c20Op{{Kind: "pub", Topic: "a", N: nextEv}})
			nextEv++
		}
	case 6: // one caller registers several subscribers whose selection takes an argument from a variable, out of its one variables map, while others publish
		w.ResolverEvents, w.ListEvents = true, false
		vars := map[string]interface{}{}
		var subs []c20Op
		for i := 0; i < 2+t.Draw(3); i++ {
			sb := newSub([]string{"", "a"}[t.Draw(2)])
			sb.Near, sb.NearVars = true, vars
			subs = append(subs, c20Op{Kind: "sub", Sid: sb.ID})
		}
		plans = append(plans, subs)
		for k := 0; k < 1+t.Draw(2); k++ {
			var pubs []c20Op
			for i := 0; i < 1+t.Draw(3); i++ {
				pubs = append(pubs, c20Op{Kind: []string{"pub", "pubmut"}[t.Draw(2)], Topic: "a", N: nextEv})
				nextEv++
			}
			plans = append(plans, pubs)
		}
		res.Count("probe_selection_with_variable_from_callers_own_map", 1)
	case 5: // a crowd: one publish matches sixteen subscribers and more, several of them fail
		n := 16 + t.Draw(6)
		for i := 0; i < n; i++ {
			sb := newSub("a")
			sb.FailFrom, sb.Dropped, sb.ByValue = 0, false, false
			if i%5 == 2 {
				sb.FailFrom, sb.Dropped = 1, true
			}
			pre = append(pre, sb.ID)
		}
		plans = append(plans, []c20Op{{Kind: "pub", Topic: "a", N: nextEv}})
		nextEv++
		if t.Bool(1, 2) {
			plans = append(plans, []c20Op{{Kind: "pub", Topic: "a", N: nextEv}})
			nextEv++
		}
		if t.Bool(1, 2) {
			plans = append(plans, []c20Op{{Kind: "unsub", Topic: "a"}})
		}
		res.Count("probe_publish_matching_sixteen_or_more", 1)
	case 1: // two publishers failing on the same subscriber
		sb := newSub("b")
		sb.FailFrom, sb.Dropped = 1, true
		pre = append(pre, sb.ID)
		for i := 0; i < 2+t.Draw(2); i++ {
			plans = append(plans, []c20Op{{Kind: "pub", Topic: "b", N: nextEv}, {Kind: "pub", Topic: "b", N: nextEv + 1}})
			nextEv += 2
		}
		if t.Bool(1, 2) {
			ns := newSub("b")
			plans = append(plans, []c20Op{{Kind: "sub", Sid: ns.ID}, {Kind: "unsub", Topic: "b"}})
		}
	default:
		for i := 0; i < t.Draw(4); i++ {
			pre = append(pre, newSub(topic()).ID)
		}
		ntasks := 2 + t.Draw(5)
		maxOps := 4
		// one task accepts every new subscriber through one parsed subscription
		// document that it keeps (parse once, resolve per client), the other
		// tasks publish and unsubscribe
		shared := t.Bool(1, 3)
		sharedSel, sharedTopic := t.Draw(len(workload.SubSelections)), topic()
		if shared {
			src, op := w.SubscriptionDoc(sharedSel, sharedTopic)
			exe, perr := w.Root.ParseExecutableString(src)
			if perr != nil {
				res.Fatal = "subscription document rejected: " + perr.Error()
				return
			}
			sharedExe, sharedOp = exe, op
			for k := 0; k < t.Draw(3); k++ {
				sb := newSub(sharedTopic)
				sb.SelIndex = sharedSel
				pre = append(pre, sb.ID)
				preExe[sb.ID] = true
			}
			res.Count("probe_one_task_subscribes_through_a_kept_parsed_document", 1)
		}
		if opt.Tier == "thorough" && t.Bool(1, 2) {
			// deeper histories in the thorough tier (still within what porcupine
			// decides quickly: <= 8 tasks x 6 calls, publishes split in two)
			ntasks = 2 + t.Draw(7)
			maxOps = 6
		}
		for i := 0; i < ntasks; i++ {
			var ops []c20Op
			taskVars := map[string]interface{}{}
			for j := 0; j < 1+t.Draw(maxOps); j++ {
				d := t.Draw(7)
				if shared {
					if i == 0 && (j < 2 || d < 4) {
						sb := newSub(sharedTopic)
						sb.SelIndex = sharedSel
						ops = append(ops, c20Op{Kind: "sub", Sid: sb.ID, Exe: true})
						continue
					}
					if d < 2 {
						d = 2
					}
				}
				if t.Bool(1, 8) {
					// a request the root refuses before it resolves anything (an
					// operation name the document does not have): no registry call,
					// but what it is answered must stay its own
					ops = append(ops, c20Op{Kind: "bad", N: nextEv})
					continue
				}
				switch d {
				case 0, 1:
					sb := newSub(topic())
					if t.Bool(1, 3) || (len(taskVars) > 0 && t.Bool(1, 2)) {
						// the selection takes an input-object argument from a variable;
						// the task passes its own variables map and keeps using it
						sb.Near, sb.NearVars = true, taskVars
					}
					ops = append(ops, c20Op{Kind: "sub", Sid: sb.ID})
				case 2, 3:
					ops = append(ops, c20Op{Kind: "pub", Topic: topic(), N: nextEv})
					nextEv++
				case 4:
					ops = append(ops, c20Op{Kind: "pubmut", Topic: topic(), N: nextEv})
					nextEv++
				default:
					ops = append(ops, c20Op{Kind: "unsub", Topic: topic()})
				}
			}
			if shared && i == 0 && len(ops) < 2 {
				sb := newSub(sharedTopic)
				sb.SelIndex = sharedSel
				ops = append(ops, c20Op{Kind: "sub", Sid: sb.ID, Exe: true})
			}
			plans = append(plans, ops)
		}
	}
	// pre-registration happens before the run (hook inactive, sequential)
	preFail := ""
	if dl := sequentialSetup(s, func() {
		for _, sid := range pre {
			r := ""
			if preExe[sid] {
				r = w.SubscribeExe(sharedExe, sharedOp, sid)
			} else {
				r = w.Subscribe(sid)
			}
			if r != `{"data":null}` {
				preFail = r
				return
			}
		}
	}); dl != "" {
		res.Evaluations = 1
		res.Violate("C20", "deadlock", "a subscription request made before any other call (one goroutine): "+dl, nil)
		return
	}
	if preFail != "" {
		res.Fatal = "pre-registration failed: " + preFail
		return
	}
	calls := make([][]*c20Call, len(plans))
	var planStr []string
	for ti, ops := range plans {
		ti, ops := ti, ops
		var names []string
		for _, o := range ops {
			names = append(names, o.String())
		}
		planStr = append(planStr, "t"+strconv.Itoa(ti)+": "+strings.Join(names, "; "))
		s.Go("t"+strconv.Itoa(ti), func(tk *sched.Task) {
			for _, o := range ops {
				cl := &c20Call{Task: ti, Op: o}
				cl.Inv = s.Stamp("invoke|"+o.String(), "call")
				switch o.Kind {
				case "sub":
					if o.Exe {
						cl.Resp = w.SubscribeExe(sharedExe, sharedOp, o.Sid)
					} else {
						cl.Resp = w.Subscribe(o.Sid)
					}
				case "pub":
					n, e := w.Publish(o.Topic, o.N)
					cl.Cnt, cl.Err = n, e != nil
				case "pubmut":
					cl.Resp = w.PublishViaMutation(o.Topic, o.N)
				case "unsub":
					cl.Cnt = w.Root.Unsubscribe(o.Topic)
				case "bad":
					cl.Resp = workload.CanonLite(w.Root.ResolveString("query A { ping } query B { ping }", "NoSuchOperation", nil))
				}
				cl.Ret = s.Stamp("return|"+o.String(), "call")
				calls[ti] = append(calls[ti], cl)
			}
		})
	}
	races := runScheduled(s)
	res.Evaluations = 1
	res.Steps = s.Steps
	res.Sig = core.Hash64(strings.Join(planStr, "\n"), fmt.Sprint(pre), strconv.FormatUint(s.InterleavingHash(), 16))
	res.NonTrivial = s.Switches > len(plans) || s.Contended > 0
	res.Count("probe_lock_contended", s.Contended)
	res.Count("sched_switches", s.Switches)
	if cfg.Fine {
		res.Count("runs_fine_granularity", 1)
	} else {
		res.Count("runs_coarse_granularity", 1)
	}
	res.Count("policy_"+strings.SplitN(cfg.String(), "(", 2)[0], 1)
	if opt.WantSample {
		tail := 60
		if opt.Replay {
			tail = 0
		}
		res.Sample = map[string]interface{}{"policy": cfg.String(), "pre_registered": pre, "plan": planStr, "subscribers": describeSubs(w), "schedule": s.Trace(tail)}
	}
	schedVerdicts(&res, "C20", s, races)
	if s.Deadlock != "" || s.Runaway || res.Fatal != "" {
		return
	}
	for _, tk := range s.Tasks() {
		if tk.Panic != nil {
			return
		}
	}
	c20Analyse(&res, w, s, pre, calls)
	return
}

func describeSubs(w *workload.SubWorld) []string {
	ids := make([]int, 0, len(w.Subs))
	for id := range w.Subs {
		ids = append(ids, id)
	}
	sort.Ints(ids)
	var out []string
	for _, id := range ids {
		sb := w.Subs[id]
		d := fmt.Sprintf("sub %d topic=%q sel=%s", sb.ID, sb.Topic, workload.SubSelections[sb.SelIndex].Sel)
		if sb.FailFrom > 0 {
			d += fmt.Sprintf(" fails from send %d dropped=%v", sb.FailFrom, sb.Dropped)
		}
		out = append(out, d)
	}
	return out
}

// c20Analyse attributes logged call-outs to calls and evaluates the invariants
// and the linearizability check.
func c20Analyse(res *core.Result, w *workload.SubWorld, s *sched.Sched, pre []int, calls [][]*c20Call) {
	// attribute events
	cur := map[int]*c20Call{}
	idx := map[int]int{}
	var all []*c20Call
	for _, e := range s.Log {
		switch {
		case e.Kind == sched.KStamp && strings.HasPrefix(e.Obj, "invoke|"):
			cl := calls[e.Task][idx[e.Task]]
			idx[e.Task]++
			cur[e.Task] = cl
			all = append(all, cl)
		case e.Kind == sched.KStamp && strings.HasPrefix(e.Obj, "return|"):
			cur[e.Task] = nil
		case e.Kind == "spawn":
			// a goroutine the library started works on behalf of the call that
			// started it: its call-outs belong to that call
			if id, err := strconv.Atoi(strings.TrimPrefix(e.Obj, "g")); err == nil {
				cur[id] = cur[e.Task]
			}
		case e.Kind == sched.KCallout:
			cl := cur[e.Task]
			p := strings.SplitN(e.Obj, "|", 4)
			if cl == nil || len(p) < 2 {
				continue
			}
			sid, _ := strconv.Atoi(p[1])
			switch p[0] {
			case "Match":
				cl.Matches = append(cl.Matches, c20Ev{Seq: e.Seq, Sid: sid, OK: len(p) > 3 && p[3] == "true"})
			case "Send":
				v := ""
				if len(p) > 3 {
					v = p[3]
				}
				cl.Sends = append(cl.Sends, c20Ev{Seq: e.Seq, Sid: sid, OK: len(p) > 2 && p[2] == "ok", Value: v})
			case "Cleanup":
				cl.Cleanups = append(cl.Cleanups, c20Ev{Seq: e.Seq, Sid: sid})
			}
		}
	}
	// I8: the library never has two call-backs into one subscriber in progress
	// at the same time (a subscriber is a connection; no sequential execution of
	// the same calls could interleave two deliveries on it)
	inSend := map[int]int{}
	for _, e := range s.Log {
		if e.Kind != sched.KCallout {
			continue
		}
		p := strings.SplitN(e.Obj, "|", 3)
		if len(p) < 2 {
			continue
		}
		sid, _ := strconv.Atoi(p[1])
		switch p[0] {
		case "Send", "Cleanup":
			if tk, busy := inSend[sid]; busy && tk != e.Task {
				res.Violate("C20", "subscriber_callbacks_overlap", fmt.Sprintf("task %d called %s of subscriber %d at seq %d while task %d was still inside Send of the same subscriber", e.Task, p[0], sid, e.Seq, tk), nil)
				return
			}
			if p[0] == "Send" {
				inSend[sid] = e.Task
			}
		case "SendEnd":
			delete(inSend, sid)
		case "ValueChanged":
			res.Violate("C20", "delivered_message_changed_later", "the message a subscriber was sent changed after the delivery (it keeps the value, as a queueing subscriber does): subscriber "+strings.TrimPrefix(e.Obj, "ValueChanged|"), nil)
			return
		}
	}
	// mutation publishes report through the response
	for _, cl := range all {
		if cl.Op.Kind == "pubmut" {
			cl.Cnt = len(cl.Sends)
			cl.Err = strings.Contains(cl.Resp, `"errors"`)
			if !cl.Err && cl.Resp != `{"data":{"post":`+strconv.Itoa(len(cl.Sends))+`}}` {
				res.Violate("C20", "publish_count_wrong", fmt.Sprintf("%s: response %s but %d deliveries were made", cl.Op, cl.Resp, len(cl.Sends)), nil)
			}
		}
	}
	regRet := map[int]uint64{} // sid -> seq after which it is registered
	for _, sid := range pre {
		regRet[sid] = 0
	}
	cleanSeq := map[int][]uint64{}
	cleanCallRet := map[int]uint64{}
	for _, cl := range all {
		if cl.Op.Kind == "sub" {
			if cl.Resp != `{"data":null}` {
				res.Violate("C20", "subscribe_failed", fmt.Sprintf("%s returned %s", cl.Op, cl.Resp), nil)
				return
			}
			regRet[cl.Op.Sid] = cl.Ret
		}
		for _, c := range cl.Cleanups {
			cleanSeq[c.Sid] = append(cleanSeq[c.Sid], c.Seq)
			if r, ok := cleanCallRet[c.Sid]; !ok || cl.Ret < r {
				cleanCallRet[c.Sid] = cl.Ret
			}
		}
	}
	// I2: clean-up at most once
	for sid, cs := range cleanSeq {
		if len(cs) > 1 {
			res.Violate("C20", "cleanup_called_twice", fmt.Sprintf("clean-up of subscriber %d was called %d times (event seqs %v)", sid, len(cs), cs), nil)
		}
	}
	firstClean := func(sid int) (uint64, bool) {
		cs := cleanSeq[sid]
		if len(cs) == 0 {
			return 0, false
		}
		m := cs[0]
		for _, c := range cs {
			if c < m {
				m = c
			}
		}
		return m, true
	}
	for _, cl := range all {
		if cl.Op.Kind == "bad" && (!strings.Contains(cl.Resp, `"errors"`) || !strings.Contains(cl.Resp, `"data":null`)) {
			res.Violate("C20", "refused_request_answered_wrongly", fmt.Sprintf("a request for an operation the document does not have was answered %s", cl.Resp), nil)
		}
	}
	gapSub, gapUnsubFailed, twoFailed := 0, 0, 0
	for _, cl := range all {
		isPub := cl.Op.Kind == "pub" || cl.Op.Kind == "pubmut"
		if isPub {
			seen := map[int]int{}
			failed := map[int]bool{}
			resolveErrs := 0 // selections applied to an event whose msg field does not resolve: an error of the publish, not a failed delivery
			for _, sd := range cl.Sends {
				seen[sd.Sid]++
				sb := w.Subs[sd.Sid]
				want, rerr := w.Expect(sb, cl.Op.N)
				if rerr {
					resolveErrs++
				}
				if sd.Value != want {
					res.Violate("C20", "wrong_message", fmt.Sprintf("%s delivered %s to subscriber %d, expected %s", cl.Op, sd.Value, sd.Sid, want), nil)
				}
				if !sd.OK {
					failed[sd.Sid] = true
				}
				// I3: nothing after the call that removed the subscriber returned
				if r, ok := cleanCallRet[sd.Sid]; ok && sd.Seq > r {
					res.Violate("C20", "delivery_after_unsubscribe_returned",
						fmt.Sprintf("%s delivered to subscriber %d at seq %d although the call that removed it had returned at seq %d", cl.Op, sd.Sid, sd.Seq, r), nil)
				}
			}
			for sid, n := range seen {
				if n > 1 {
					res.Violate("C20", "delivered_twice", fmt.Sprintf("%s delivered %d times to subscriber %d", cl.Op, n, sid), nil)
				}
			}
			matched := 0
			for _, m := range cl.Matches {
				if m.OK {
					matched++
				}
			}
			if cl.Cnt != len(cl.Sends) || matched != len(cl.Sends) {
				res.Violate("C20", "publish_count_wrong", fmt.Sprintf("%s reported %d, matched %d subscribers, delivered %d", cl.Op, cl.Cnt, matched, len(cl.Sends)), nil)
			}
			// (a failed delivery whose error is a group without members has nothing
			// to report: either outcome is taken for it)
			spoken, mute := 0, 0
			for sid := range failed {
				if w.Subs[sid].EmptyGroupErr {
					mute++
				} else {
					spoken++
				}
			}
			if cl.Err != (spoken > 0 || resolveErrs > 0) && !(mute > 0 && spoken == 0 && resolveErrs == 0) {
				res.Violate("C20", "publish_error_mismatch", fmt.Sprintf("%s: error=%v but %d deliveries failed and %d selections hit a field that does not resolve", cl.Op, cl.Err, len(failed), resolveErrs), nil)
			}
			// I4: a subscriber registered before the publish started and not removed
			// before it returned gets the event exactly once
			for sid, rr := range regRet {
				sb := w.Subs[sid]
				if !subMatches(sb, cl.Op.Topic) || (rr != 0 && rr > cl.Inv) {
					continue
				}
				if fc, ok := firstClean(sid); ok && fc < cl.Ret {
					continue
				}
				if seen[sid] != 1 {
					res.Violate("C20", "event_not_delivered",
						fmt.Sprintf("%s (seq %d..%d) was not delivered to subscriber %d, registered at seq %d and never removed before the publish returned", cl.Op, cl.Inv, cl.Ret, sid, rr), nil)
				}
			}
			// I6: a failed delivery removes the subscriber by the time the publish returns
			for sid := range failed {
				if fc, ok := firstClean(sid); !ok || fc > cl.Ret {
					res.Violate("C20", "failed_subscriber_not_removed", fmt.Sprintf("%s: delivery to subscriber %d failed but its clean-up had not run when the publish returned", cl.Op, sid), nil)
				}
			}
			// probes over the publish gap [last delivery .. return]
			split := cl.Inv
			for _, sd := range cl.Sends {
				if sd.Seq > split {
					split = sd.Seq
				}
			}
			for _, o := range all {
				if o == cl {
					continue
				}
				if o.Op.Kind == "sub" && o.Ret > split && o.Inv < cl.Ret {
					gapSub++
				}
				if o.Op.Kind == "unsub" && len(failed) > 0 {
					for _, c := range o.Cleanups {
						if failed[c.Sid] && c.Seq > split && c.Seq < cl.Ret {
							gapUnsubFailed++
						}
					}
				}
				if (o.Op.Kind == "pub" || o.Op.Kind == "pubmut") && len(failed) > 0 {
					for _, sd := range o.Sends {
						if !sd.OK && failed[sd.Sid] && sd.Seq > split && sd.Seq < cl.Ret {
							twoFailed++
						}
					}
				}
			}
		}
		if cl.Op.Kind == "unsub" {
			if cl.Cnt != len(cl.Cleanups) {
				res.Violate("C20", "unsubscribe_count_wrong", fmt.Sprintf("%s returned %d but cleaned up %d subscribers", cl.Op, cl.Cnt, len(cl.Cleanups)), nil)
			}
			for sid, rr := range regRet {
				sb := w.Subs[sid]
				if !subMatches(sb, cl.Op.Topic) || (rr != 0 && rr > cl.Inv) {
					continue
				}
				if fc, ok := firstClean(sid); !ok || fc > cl.Ret {
					res.Violate("C20", "unsubscribe_missed_subscriber",
						fmt.Sprintf("%s (seq %d..%d) left subscriber %d registered (registered at seq %d)", cl.Op, cl.Inv, cl.Ret, sid, rr), nil)
				}
			}
		}
	}
	nfail := 0
	for _, cl := range all {
		for _, sd := range cl.Sends {
			if !sd.OK {
				nfail++
			}
		}
	}
	res.Count("fault_subscriber_delivery_failed", nfail)
	res.Count("probe_subscribe_inside_publish_gap", gapSub)
	res.Count("probe_unsubscribe_removed_failed_subscriber_inside_gap", gapUnsubFailed)
	res.Count("probe_two_publishers_failed_on_same_subscriber_before_cleanup", twoFailed)

	// linearizability
	if len(res.Violations) == 0 {
		c20Linearizable(res, w, pre, all)
	}
}

type linIn struct {
	Kind    string // sub deliver cleanup unsub
	Sid     int
	Topic   string
	List    []int // deliver: observed sids in order; cleanup: failed sids
	Cleaned []int
	Cnt     int
}

func encodeLive(l []int) string {
	var b strings.Builder
	for i, x := range l {
		if i > 0 {
			b.WriteByte(',')
		}
		b.WriteString(strconv.Itoa(x))
	}
	return b.String()
}

func decodeLive(s string) []int {
	if s == "" {
		return nil
	}
	var out []int
	for _, p := range strings.Split(s, ",") {
		n, _ := strconv.Atoi(p)
		out = append(out, n)
	}
	return out
}

func c20Linearizable(res *core.Result, w *workload.SubWorld, pre []int, all []*c20Call) {
	model := porcupine.Model{
		Init: func() interface{} { return encodeLive(pre) },
		Step: func(state, input, output interface{}) (bool, interface{}) {
			live := decodeLive(state.(string))
			in := input.(linIn)
			switch in.Kind {
			case "sub":
				return true, encodeLive(append(live, in.Sid))
			case "deliver":
				var exp []int
				for _, sid := range live {
					if subMatches(w.Subs[sid], in.Topic) {
						exp = append(exp, sid)
					}
				}
				if len(exp) != len(in.List) {
					return false, state
				}
				for i := range exp {
					if exp[i] != in.List[i] {
						return false, state
					}
				}
				return true, state
			case "cleanup":
				var removed, rest []int
				for _, sid := range live {
					f := false
					for _, x := range in.List {
						if x == sid {
							f = true
						}
					}
					if f {
						removed = append(removed, sid)
					} else {
						rest = append(rest, sid)
					}
				}
				if !sameSet(removed, in.Cleaned) {
					return false, state
				}
				return true, encodeLive(rest)
			case "unsub":
				var removed, rest []int
				for _, sid := range live {
					if subMatches(w.Subs[sid], in.Topic) {
						removed = append(removed, sid)
					} else {
						rest = append(rest, sid)
					}
				}
				if in.Cnt != len(removed) || !sameSet(removed, in.Cleaned) {
					return false, state
				}
				return true, encodeLive(rest)
			}
			return false, state
		},
		Equal: func(a, b interface{}) bool { return a.(string) == b.(string) },
		DescribeOperation: func(input, output interface{}) string {
			in := input.(linIn)
			return fmt.Sprintf("%s sid=%d topic=%q list=%v cleaned=%v cnt=%d", in.Kind, in.Sid, in.Topic, in.List, in.Cleaned, in.Cnt)
		},
	}
	var ops []porcupine.Operation
	for _, cl := range all {
		switch cl.Op.Kind {
		case "bad":
			continue // not a registry call
		case "sub":
			ops = append(ops, porcupine.Operation{ClientId: cl.Task, Input: linIn{Kind: "sub", Sid: cl.Op.Sid}, Call: int64(cl.Inv) * 4, Output: 0, Return: int64(cl.Ret) * 4})
		case "unsub":
			in := linIn{Kind: "unsub", Topic: cl.Op.Topic, Cnt: cl.Cnt}
			for _, c := range cl.Cleanups {
				in.Cleaned = append(in.Cleaned, c.Sid)
			}
			ops = append(ops, porcupine.Operation{ClientId: cl.Task, Input: in, Call: int64(cl.Inv) * 4, Output: 0, Return: int64(cl.Ret) * 4})
		default:
			split := cl.Inv
			del := linIn{Kind: "deliver", Topic: cl.Op.Topic}
			cln := linIn{Kind: "cleanup"}
			for _, sd := range cl.Sends {
				del.List = append(del.List, sd.Sid)
				if !sd.OK {
					cln.List = append(cln.List, sd.Sid)
				}
				if sd.Seq > split {
					split = sd.Seq
				}
			}
			for _, m := range cl.Matches {
				if m.Seq > split {
					split = m.Seq
				}
			}
			for _, c := range cl.Cleanups {
				cln.Cleaned = append(cln.Cleaned, c.Sid)
			}
			if len(cl.Sends) == 0 && len(cl.Matches) == 0 {
				// no call-out at all: the (empty) delivery pass happened somewhere
				// inside the call
				ops = append(ops, porcupine.Operation{ClientId: cl.Task, Input: del, Call: int64(cl.Inv) * 4, Output: 0, Return: int64(cl.Ret) * 4})
				continue
			}
			ops = append(ops, porcupine.Operation{ClientId: cl.Task, Input: del, Call: int64(cl.Inv) * 4, Output: 0, Return: int64(split)*4 + 1})
			if len(cln.List) > 0 || len(cln.Cleaned) > 0 {
				ops = append(ops, porcupine.Operation{ClientId: cl.Task, Input: cln, Call: int64(split)*4 + 2, Output: 0, Return: int64(cl.Ret) * 4})
			}
		}
	}
	if len(ops) == 0 {
		return
	}
	r := porcupine.CheckOperationsTimeout(model, ops, 30*time.Second)
	switch r {
	case porcupine.Ok:
		res.Count("porcupine_ok", 1)
	case porcupine.Unknown:
		res.Count("porcupine_unknown", 1)
		res.Inconclusive++
	case porcupine.Illegal:
		var desc []string
		for _, o := range ops {
			desc = append(desc, fmt.Sprintf("client %d [%d,%d] %s", o.ClientId, o.Call, o.Return, model.DescribeOperation(o.Input, o.Output)))
		}
		res.Violate("C20", "not_linearizable", "the recorded call history is not linearizable against the sequential registry model:\n"+strings.Join(desc, "\n"), nil)
	}
}
