//go:build !race

package checks

func workerEnv(id string) []string { return nil }
