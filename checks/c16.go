package checks

import (
	"fmt"
	"strings"

	"github.com/uhn/ggql/pkg/ggql"

	"verif/sim/core"
	"verif/sim/iosim"
	"verif/sim/tape"
	"verif/workload"
)

// C16: a schema means the same however its definitions are ordered, split over
// successive loads, spread over files or moved into extend blocks. What the
// simulator controls here is the arrival order and batching of definitions at
// a stateful single-pass loader.
type C16 struct{}

func init() { register(C16{}) }

func (C16) ID() string      { return "C16" }
func (C16) Level() string   { return "exploration" }
func (C16) NeedsRace() bool { return false }
func (C16) Rule() string {
	return "a case is one (definition set, arrangement): a generated set of cross-referencing definitions (objects, interfaces with implementers, unions, enums, inputs with defaults, scalars, custom directives with argument defaults used before and after their definition, optional schema block; 1 in 4 sets carries one ill-formed definition) " +
		"loaded in the canonical arrangement and in 4 tape-drawn arrangements: permutation, split into 2-4 successive loads that keep references resolvable, ParseFS over 1-3 files, members moved into extend blocks (same or later load); " +
		"non-trivial = the arrangement differs from the canonical one in order, batching or extend placement; distinct = distinct hashes of the arranged documents"
}
func (C16) Assumptions() []string {
	return []string{
		"schemas are compared through a canonical description read from the public API (directive uses with declared argument defaults filled in; member order ignored only for arrangements that move members into extend blocks), plus introspection and responses to a schema-derived request set for the others",
		"only splits in which every reference and every extend target is defined in the same or an earlier load are judged",
	}
}
func (C16) Components() map[string]string {
	return map[string]string{
		"pkg/ggql (SDL parser, reference replacement, extension merge, validation, implicit schema, introspection)": "real",
		"fs.FS":                       "simulated (iosim), fault-free here",
		"data behind the request set": "stub (schema-driven AnyResolver)",
	}
}

type c16Frag struct {
	name string   // defined name ("" for schema block)
	text string   // full definition
	refs []string // names referenced
	spec *workload.TypeSpec
	bad  bool
}

func specRefs(s *workload.TypeSpec) []string {
	var out []string
	var walk func(e *workload.TExpr)
	walk = func(e *workload.TExpr) {
		switch {
		case e == nil:
		case e.List != nil:
			walk(e.List)
		case e.NonNull != nil:
			walk(e.NonNull)
		default:
			out = append(out, e.Name)
		}
	}
	for _, f := range s.Fields {
		walk(f.Type)
		for _, a := range f.Args {
			walk(a.Type)
		}
	}
	out = append(out, s.Implements...)
	if s.Kind == "union" {
		out = append(out, s.Members...)
	}
	for _, d := range s.DirUses {
		// directives and types have separate name spaces: directive names keep
		// their @ in the reference bookkeeping
		n := d
		if i := strings.Index(n, "("); i >= 0 {
			n = n[:i]
		}
		out = append(out, n)
	}
	return out
}

// splitSpec moves the tail of a spec's members into an extend fragment.
func splitSpec(t *tape.Tape, s *workload.TypeSpec) (base, ext string, ok bool) {
	cp := *s
	kind := s.Kind
	if len(s.DirUses) > 0 && t.Bool(1, 3) {
		kind = "" // move the directives instead of members (extension with an empty body)
	}
	switch kind {
	case "object", "interface", "input":
		if len(s.Fields) < 2 {
			break
		}
		// interface fields required by Implements must stay in place only if the
		// interface itself is not extended; any split is fine for validity since
		// validation runs after all extensions are applied
		k := 1 + t.Draw(len(s.Fields)-1)
		cp.Fields = s.Fields[:k]
		x := workload.TypeSpec{Kind: s.Kind, Name: s.Name, Fields: s.Fields[k:]}
		if s.Kind == "input" && len(x.Fields) > 1 {
			// one extend block per input field (Input.Extend iterates a map)
			var b strings.Builder
			for _, f := range x.Fields {
				one := workload.TypeSpec{Kind: "input", Name: s.Name, Fields: []workload.FieldSpec{f}}
				b.WriteString("extend " + one.SDL())
			}
			return cp.SDL(), b.String(), true
		}
		return cp.SDL(), "extend " + x.SDL(), true
	case "enum":
		if len(s.Values) < 2 {
			break
		}
		k := 1 + t.Draw(len(s.Values)-1)
		cp.Values = s.Values[:k]
		x := workload.TypeSpec{Kind: "enum", Name: s.Name, Values: s.Values[k:]}
		return cp.SDL(), "extend " + x.SDL(), true
	case "union":
		if len(s.Members) < 2 {
			break
		}
		k := 1 + t.Draw(len(s.Members)-1)
		cp.Members = s.Members[:k]
		x := workload.TypeSpec{Kind: "union", Name: s.Name, Members: s.Members[k:]}
		return cp.SDL(), "extend " + x.SDL(), true
	}
	if len(s.DirUses) > 0 && (s.Kind == "object" || s.Kind == "enum" || s.Kind == "union" || s.Kind == "input" || s.Kind == "interface" || s.Kind == "scalar") {
		cp.DirUses = nil
		kw := map[string]string{"object": "type", "enum": "enum", "union": "union", "input": "input", "interface": "interface", "scalar": "scalar"}[s.Kind]
		// ggql's grammar wants the braces of an object-like extension even when
		// it only adds directives
		switch s.Kind {
		case "scalar":
			return cp.SDL(), "extend " + kw + " " + s.Name + " " + strings.Join(s.DirUses, " ") + "\n", true
		case "union":
			return "", "", false
		}
		return cp.SDL(), "extend " + kw + " " + s.Name + " " + strings.Join(s.DirUses, " ") + " {\n}\n", true
	}
	return "", "", false
}

// c16TargetedPoison breaks one rule through an extension of a definition of
// the set: in a split arrangement the extension may arrive in a later load
// than the definitions it invalidates.
func c16TargetedPoison(t *tape.Tape, frags []*c16Frag) *c16Frag {
	var ifaces, objs, enums, unions []*c16Frag
	for _, f := range frags {
		if f.spec == nil {
			continue
		}
		switch f.spec.Kind {
		case "interface":
			ifaces = append(ifaces, f)
		case "object":
			objs = append(objs, f)
		case "enum":
			enums = append(enums, f)
		case "union":
			unions = append(unions, f)
		}
	}
	for tries := 0; tries < 6; tries++ {
		switch t.Draw(6) {
		case 0: // an interface gains a field its implementers do not have
			for _, it := range ifaces {
				for _, o := range objs {
					for _, im := range o.spec.Implements {
						if im == it.name {
							return &c16Frag{name: "<poison:extend_interface_breaks_implementer>", bad: true, refs: []string{it.name, o.name},
								text: "extend interface " + it.name + " {\n  zzAdded: Int\n}\n"}
						}
					}
				}
			}
		case 1: // an object claims an interface it does not satisfy
			if len(ifaces) > 0 && len(objs) > 0 {
				it, o := ifaces[t.Draw(len(ifaces))], objs[t.Draw(len(objs))]
				has := false
				for _, im := range o.spec.Implements {
					if im == it.name {
						has = true
					}
				}
				if !has && len(it.spec.Fields) > 0 {
					return &c16Frag{name: "<poison:extend_type_implements_unsatisfied>", bad: true, refs: []string{it.name, o.name},
						text: "extend type " + o.name + " implements " + it.name + " {\n  zzOther: Int\n}\n"}
				}
			}
		case 2: // a union gains a member that is not an object
			if len(unions) > 0 && len(enums) > 0 {
				u, e := unions[t.Draw(len(unions))], enums[t.Draw(len(enums))]
				return &c16Frag{name: "<poison:extend_union_with_enum>", bad: true, refs: []string{u.name, e.name}, text: "extend union " + u.name + " = " + e.name + "\n"}
			}
		case 3: // an enum value twice
			if len(enums) > 0 {
				e := enums[t.Draw(len(enums))]
				if len(e.spec.Values) > 0 {
					return &c16Frag{name: "<poison:extend_enum_duplicate_value>", bad: true, refs: []string{e.name}, text: "extend enum " + e.name + " {\n  " + e.spec.Values[0] + "\n}\n"}
				}
			}
		case 4: // a field of an undefined type
			if len(objs) > 0 {
				o := objs[t.Draw(len(objs))]
				return &c16Frag{name: "<poison:extend_type_undefined_ref>", bad: true, refs: []string{o.name}, text: "extend type " + o.name + " {\n  zzBad: NopeNope\n}\n"}
			}
		case 5: // a field the object already has
			if len(objs) > 0 {
				o := objs[t.Draw(len(objs))]
				if len(o.spec.Fields) > 0 {
					return &c16Frag{name: "<poison:extend_type_duplicate_field>", bad: true, refs: []string{o.name}, text: "extend type " + o.name + " {\n  " + o.spec.Fields[0].Name + ": Int\n}\n"}
				}
			}
		}
	}
	return nil
}

// splitSpecMulti moves the tail of a spec's members into one extend block per
// member (in member order).
func splitSpecMulti(t *tape.Tape, s *workload.TypeSpec) (base string, exts []string, ok bool) {
	cp := *s
	switch s.Kind {
	case "object", "interface", "input":
		if len(s.Fields) < 2 {
			return "", nil, false
		}
		k := 1 + t.Draw(len(s.Fields)-1)
		if s.Kind == "object" && len(s.Implements) > 0 && t.Bool(1, 2) {
			// the last interface moves into an extend block of its own that comes
			// BEFORE the blocks bringing the fields it requires
			k = 1
			cp.Implements = s.Implements[:len(s.Implements)-1]
			exts = append(exts, "extend type "+s.Name+" implements "+s.Implements[len(s.Implements)-1]+" {\n}\n")
		}
		cp.Fields = s.Fields[:k]
		for _, f := range s.Fields[k:] {
			x := workload.TypeSpec{Kind: s.Kind, Name: s.Name, Fields: []workload.FieldSpec{f}}
			exts = append(exts, "extend "+x.SDL())
		}
	case "enum":
		if len(s.Values) < 2 {
			return "", nil, false
		}
		k := 1 + t.Draw(len(s.Values)-1)
		cp.Values = s.Values[:k]
		for _, v := range s.Values[k:] {
			x := workload.TypeSpec{Kind: "enum", Name: s.Name, Values: []string{v}}
			exts = append(exts, "extend "+x.SDL())
		}
	case "union":
		if len(s.Members) < 2 {
			return "", nil, false
		}
		k := 1 + t.Draw(len(s.Members)-1)
		cp.Members = s.Members[:k]
		for _, m := range s.Members[k:] {
			x := workload.TypeSpec{Kind: "union", Name: s.Name, Members: []string{m}}
			exts = append(exts, "extend "+x.SDL())
		}
	default:
		return "", nil, false
	}
	return cp.SDL(), exts, true
}

type c16Arr struct {
	kind  string
	loads [][]string // documents per load, each a list of fragment texts
	fs    bool       // single load through ParseFS
	rd    bool       // loads through ParseReader over a reader that returns short reads
	ext   bool       // members moved to extend blocks
}

func (a *c16Arr) docs() []string {
	var out []string
	for _, l := range a.loads {
		out = append(out, strings.Join(l, ""))
	}
	return out
}

type c16Result struct {
	rejected bool
	err      string
	descS    string
	descU    string
	obs      *workload.Observation
}

func c16Load(t *tape.Tape, a *c16Arr) (r c16Result) {
	root := workload.NewSynthRoot()
	defer func() {
		if p := recover(); p != nil {
			r.rejected = true
			r.err = fmt.Sprintf("PANIC: %v", p)
		}
	}()
	for i, l := range a.loads {
		var err error
		if a.fs {
			fsys := iosim.NewFS()
			n := 1 + t.Draw(3)
			per := make([]strings.Builder, n)
			for j, f := range l {
				per[j*n/len(l)].WriteString(f)
			}
			// files of one base name in different directories (a schema kept as
			// core/types.graphql, shop/types.graphql, ...)
			dirs := t.Bool(1, 3)
			for j := 0; j < n; j++ {
				txt := per[j].String()
				switch t.Draw(4) {
				case 0:
					// a file that ends in a comment without a final newline
					txt = strings.TrimRight(txt, "\n") + " # end of part " + fmt.Sprint(j)
				case 1:
					txt = strings.TrimRight(txt, "\n")
				}
				if dirs {
					fsys.Files[fmt.Sprintf("mod%d/types.graphql", j)] = []byte(txt)
				} else {
					fsys.Files[fmt.Sprintf("part%d.graphql", j)] = []byte(txt)
				}
			}
			if dirs {
				if t.Bool(1, 2) {
					err = root.ParseFS(fsys, "*/*.graphql")
				} else {
					err = root.ParseFS(fsys, "mod*/types.graphql", "*/*.graphql")
				}
				if err != nil {
					r.rejected = true
					r.err = fmt.Sprintf("load %d of %d: %s", i+1, len(a.loads), oneLine(err.Error()))
					return
				}
				continue
			}
			switch t.Draw(4) {
			case 0:
				// patterns that overlap: a file matched twice is still one file
				err = root.ParseFS(fsys, "*.graphql", "part0*")
			case 1:
				err = root.ParseFS(fsys, "part*", "*.graphql")
			default:
				err = root.ParseFS(fsys, "*.graphql")
			}
		} else if a.rd {
			// through ParseReader, the text arriving in short reads
			r := iosim.NewReader([]byte(strings.Join(l, "")), iosim.Plan{})
			r.Chunk = 1 + t.Draw(50)
			err = root.ParseReader(r)
		} else {
			err = root.ParseString(strings.Join(l, ""))
		}
		if err != nil {
			r.rejected = true
			r.err = fmt.Sprintf("load %d of %d: %s", i+1, len(a.loads), oneLine(err.Error()))
			return
		}
	}
	r.descS = workload.Describe(root, true)
	r.descU = workload.Describe(root, false)
	r.obs = workload.Observe(root)
	return
}

func (c C16) Run(t *tape.Tape, opt core.RunOpt) (res core.Result) {
	g := &workload.Gen{T: t, St: &workload.SymTab{ByName: map[string]*workload.TInfo{}}, CaseTwins: t.Bool(1, 3)}
	n := 3 + t.Draw(8)
	var frags []*c16Frag
	for i := 0; i < n; i++ {
		f := g.Valid()
		if f.Spec == nil {
			continue
		}
		cf := &c16Frag{name: f.Spec.Name, text: f.Text, refs: specRefs(f.Spec), spec: f.Spec}
		if f.Spec.Kind == "directive" {
			cf.name = "@" + f.Spec.Name
		}
		frags = append(frags, cf)
		if f.Spec.Kind == "directive" {
			// make it usable by later definitions
			g.St.Dirs = append(g.St.Dirs, f.Spec.Name)
		}
	}
	extSchema := false
	illFormed := t.Bool(1, 4)
	if illFormed {
		if tp := c16TargetedPoison(t, frags); tp != nil && t.Bool(2, 3) {
			frags = append(frags, tp)
		} else {
			p := g.Poison()
			frags = append(frags, &c16Frag{name: "<poison:" + p.Kind + ">", text: p.Text, bad: true})
		}
	}
	// operation roots named through an extension of the derived schema (no
	// schema block): "extend schema { mutation: T7 }"
	if !illFormed && t.Bool(1, 5) {
		hasQ, hasM := false, false
		var objs []*c16Frag
		for _, f := range frags {
			switch {
			case f.name == "Query":
				hasQ = true
			case f.name == "Mutation" || f.name == "Subscription":
				hasM = true
			case f.spec != nil && f.spec.Kind == "object":
				objs = append(objs, f)
			}
		}
		if hasQ && !hasM && len(objs) > 0 {
			o := objs[t.Draw(len(objs))]
			which := []string{"mutation", "subscription"}[t.Draw(2)]
			frags = append(frags, &c16Frag{name: "<extend schema>", text: "extend schema {\n  " + which + ": " + o.name + "\n}\n", refs: []string{"Query", o.name}})
			extSchema = true
		}
	}
	if !extSchema && t.Bool(1, 4) && g.St.ByName["Query"] == nil {
		hasQ := false
		for _, f := range frags {
			if f.name == "Query" {
				hasQ = true
			}
		}
		if hasQ {
			frags = append(frags, &c16Frag{name: "<schema>", text: "schema {\n  query: Query\n}\n", refs: []string{"Query"}})
		}
	}
	// input types a directive argument literal (default or use) is written for:
	// the literal names their required fields, which therefore have to be there
	// in the load that brings the literal
	litInputs := map[string]bool{}
	allLits := "" // every literal written in the set (defaults and directive uses)
	for _, f := range frags {
		if f.spec == nil {
			continue
		}
		if f.spec.Kind == "directive" {
			for _, a := range f.spec.Fields {
				if a.Name == "o" && a.Type != nil {
					litInputs[a.Type.Name] = true
				}
			}
		}
		allLits += strings.Join(f.spec.DirUses, " ") + " "
		for _, fl := range f.spec.Fields {
			allLits += fl.Default + " "
			for _, a := range fl.Args {
				allLits += a.Default + " "
			}
		}
	}
	// any input type may be written as a literal (input-object defaults nest):
	// a field that some literal names has to stay with its type
	for _, f := range frags {
		if f.spec != nil && f.spec.Kind == "input" {
			litInputs[f.name] = true
		}
	}
	// the same custom scalar declared twice (the library takes a repeated scalar
	// declaration as one, in one document and across loads alike)
	if !illFormed && t.Bool(1, 6) {
		for _, f := range frags {
			if f.spec != nil && f.spec.Kind == "scalar" && len(f.spec.DirUses) == 0 {
				frags = append(frags, &c16Frag{name: "<scalar " + f.name + " declared again>", text: "scalar " + f.name + "\n"})
				break
			}
		}
	}
	explicitExt := map[string]bool{} // types the definition set itself extends
	// the built-in scalar String gains a directive through an extension (String
	// is the one built-in scalar the library lets a schema extend): every root
	// has a String of its own
	if !illFormed && t.Bool(1, 8) {
		for _, f := range frags {
			if f.spec != nil && f.spec.Kind == "directive" {
				frags = append(frags, &c16Frag{name: "<extend scalar String>", refs: []string{f.name},
					text: "extend scalar String @" + f.spec.Name + "\n"})
				res.Count("probe_built_in_scalar_extended", 1)
				break
			}
		}
	}
	// an input type gains a defaulted field through an extension that is part of
	// the definition set (a split may deliver it in a later load than the
	// directives and fields that use the input type)
	if !illFormed {
		var ins []*c16Frag
		for _, f := range frags {
			if f.spec != nil && f.spec.Kind == "input" {
				ins = append(ins, f)
			}
		}
		hasLit := false
		for _, f := range ins {
			if litInputs[f.name] {
				hasLit = true
			}
		}
		if len(ins) > 0 && (t.Bool(1, 3) || (hasLit && t.Bool(1, 2))) {
			in := ins[t.Draw(len(ins))]
			for _, f := range ins {
				if litInputs[f.name] && t.Bool(2, 3) {
					in = f
				}
			}
			explicitExt[in.name] = true
			frags = append(frags, &c16Frag{name: "<extend input " + in.name + ">", refs: []string{in.name},
				text: fmt.Sprintf("extend input %s {\n  zzd%d: Int = %d\n}\n", in.name, t.Draw(9), 1+t.Draw(9))})
			// and a query field that takes the input type, so that the request set
			// shows what a resolver receives for it
			for _, f := range frags {
				if f.name == "Query" && t.Bool(2, 3) {
					explicitExt["Query"] = true
					frags = append(frags, &c16Frag{name: "<extend type Query: field taking " + in.name + ">", refs: []string{"Query", in.name},
						text: fmt.Sprintf("extend type Query {\n  zzq%d(a: %s): String\n}\n", t.Draw(9), in.name)})
					break
				}
			}
		}
	}
	// a chain of input types with defaults at every level, and literals that
	// spell out only the upper levels: what the schema shows for the rest must
	// not depend on how many loads (validations) follow the literal
	if !illFormed && t.Bool(1, 5) {
		depth := 2 + t.Draw(3)
		pfx := fmt.Sprintf("Zc%d", t.Draw(3))
		frags = append(frags, &c16Frag{name: pfx + "1", text: fmt.Sprintf("input %s1 {\n  a: Int = %d\n  s: [String] = [\"u\"]\n}\n", pfx, 1+t.Draw(9))})
		for i := 2; i <= depth; i++ {
			def := ""
			if t.Bool(2, 3) {
				def = " = {}"
			}
			frags = append(frags, &c16Frag{name: fmt.Sprintf("%s%d", pfx, i), refs: []string{fmt.Sprintf("%s%d", pfx, i-1)},
				text: fmt.Sprintf("input %s%d {\n  b: Int = %d\n  n: %s%d%s\n  l: [%s%d] = [{}]\n}\n", pfx, i, 10+i, pfx, i-1, def, pfx, i-1)})
		}
		top := fmt.Sprintf("%s%d", pfx, depth)
		lit := func() string {
			d := t.Draw(depth)
			l := "{}"
			for j := 0; j < d; j++ {
				switch t.Draw(3) {
				case 0:
					l = "{n: " + l + "}"
				case 1:
					l = "{l: [" + l + "]}"
				default:
					l = "{b: 1, n: " + l + "}"
				}
			}
			return l
		}
		dname := "zpol" + pfx
		ddef := ""
		if t.Bool(1, 3) {
			ddef = " = " + lit()
		}
		frags = append(frags, &c16Frag{name: "@" + dname, refs: []string{top},
			text: fmt.Sprintf("directive @%s(p: %s%s) on OBJECT | FIELD_DEFINITION | ARGUMENT_DEFINITION\n", dname, top, ddef)})
		use := fmt.Sprintf("type %sUse @%s(p: %s) {\n  f: Int @%s\n  g(a: %s = %s @%s(p: %s)): Int\n}\n", pfx, dname, lit(), dname, top, lit(), dname, lit())
		frags = append(frags, &c16Frag{name: pfx + "Use", refs: []string{top, "@" + dname}, text: use})
		res.Count("probe_nested_default_chain", 1)
	}
	defOf := map[string]int{}
	for i, f := range frags {
		defOf[f.name] = i
	}
	canon := &c16Arr{kind: "canonical", loads: [][]string{nil}}
	for _, f := range frags {
		canon.loads[0] = append(canon.loads[0], f.text)
	}
	base := c16Load(t, canon)
	res.Evaluations = 1
	res.Sig = core.Hash64("canon", strings.Join(canon.docs(), "\x00"))
	sample := map[string]interface{}{"canonical": canon.docs(), "canonical_outcome": map[string]interface{}{"rejected": base.rejected, "error": base.err}}
	var arrs []map[string]interface{}
	defer func() {
		if opt.WantSample {
			sample["arrangements"] = arrs
			res.Sample = sample
		}
	}()
	if illFormed {
		res.Count("probe_ill_formed_sets", 1)
	}
	perm := func(l []string) []string {
		out := append([]string(nil), l...)
		for i := len(out) - 1; i > 0; i-- {
			j := t.Draw(i + 1)
			out[i], out[j] = out[j], out[i]
		}
		return out
	}
	for ai := 0; ai < 4; ai++ {
		a := &c16Arr{}
		texts := make([]string, len(frags))
		extra := make([]string, len(frags)) // extend fragment of definition i, if moved
		for i, f := range frags {
			texts[i] = f.text
		}
		optMoved := map[string]bool{}
		kind := t.Draw(6)
		if kind == 5 {
			// one extend block per moved member, the blocks of a type in member
			// order but interleaved with the blocks of the other types (many
			// blocks in one document): member order must come out as written
			a.kind = "extend-ordered"
			var queues [][]string
			for i, f := range frags {
				if f.spec != nil && t.Bool(2, 3) {
					if explicitExt[f.name] {
						// the set itself extends this type: where that block stands
						// relative to generated ones would decide the member order
						continue
					}
					if b, xs, ok := splitSpecMulti(t, f.spec); ok {
						texts[i] = b
						queues = append(queues, xs)
					}
				}
			}
			l := perm(texts)
			for len(queues) > 0 {
				qi := t.Draw(len(queues))
				l = append(l, queues[qi][0])
				queues[qi] = queues[qi][1:]
				if len(queues[qi]) == 0 {
					queues = append(queues[:qi], queues[qi+1:]...)
				}
			}
			a.loads = [][]string{l}
		}
		if kind == 3 || kind == 4 {
			// move members of some definitions into extend blocks
			a.ext = true
			for i, f := range frags {
				if f.spec != nil && t.Bool(1, 2) {
					sp := f.spec
					if sp.Kind == "input" && litInputs[sp.Name] {
						// only optional trailing fields may move: the literals written
						// for this input name its required fields
						n := len(sp.Fields)
						for n > 0 && (!strings.HasSuffix(sp.Fields[n-1].Type.String(), "!") || sp.Fields[n-1].Default != "") && !strings.Contains(allLits, sp.Fields[n-1].Name+":") {
							n--
						}
						if len(sp.DirUses) > 0 && t.Bool(1, 2) {
							// the directive uses move instead (an extension with an
							// empty body), the fields stay where they are
							base := *sp
							base.DirUses = nil
							texts[i], extra[i] = base.SDL(), "extend input "+sp.Name+" "+strings.Join(sp.DirUses, " ")+" {\n}\n"
							optMoved[sp.Name] = true
							continue
						}
						if n == len(sp.Fields) || n == 0 {
							continue
						}
						base := *sp
						base.Fields = sp.Fields[:n]
						var b strings.Builder
						for _, fl := range sp.Fields[n:] {
							one := workload.TypeSpec{Kind: "input", Name: sp.Name, Fields: []workload.FieldSpec{fl}}
							b.WriteString("extend " + one.SDL())
						}
						texts[i], extra[i] = base.SDL(), b.String()
						optMoved[sp.Name] = true
						continue
					}
					if b, x, ok := splitSpec(t, sp); ok {
						texts[i], extra[i] = b, x
					}
				}
			}
		}
		switch kind {
		case 0:
			a.kind = "permutation"
			a.loads = [][]string{perm(texts)}
		case 1, 4:
			a.kind = "split"
			if kind == 4 {
				a.kind = "split+extend"
			}
			nl := 2 + t.Draw(3)
			load := make([]int, len(frags))
			for i, f := range frags {
				l := t.Draw(nl)
				for _, r := range f.refs {
					if d, ok := defOf[r]; ok && d < i && load[d] > l {
						l = load[d]
					}
				}
				load[i] = l
			}
			a.loads = make([][]string, nl)
			for i := range frags {
				a.loads[load[i]] = append(a.loads[load[i]], texts[i])
				if extra[i] != "" {
					el := load[i] + t.Draw(nl-load[i])
					if sp := frags[i].spec; sp != nil && (sp.Kind == "interface" || len(sp.Implements) > 0 || (sp.Kind == "input" && litInputs[sp.Name] && !optMoved[sp.Name])) {
						// every load has to leave a well-formed schema behind: members
						// that interface conformance depends on stay in the same load
						el = load[i]
					}
					a.loads[el] = append(a.loads[el], extra[i])
				}
			}
			var nonEmpty [][]string
			for _, l := range a.loads {
				if len(l) > 0 {
					nonEmpty = append(nonEmpty, perm(l))
				}
			}
			a.loads = nonEmpty
		case 2:
			a.kind = "files"
			a.fs = true
			a.loads = [][]string{perm(texts)}
		case 3:
			a.kind = "extend"
			var l []string
			l = append(l, texts...)
			for _, x := range extra {
				if x != "" {
					l = append(l, x)
				}
			}
			a.loads = [][]string{perm(l)}
		}
		if !a.fs && t.Bool(1, 4) {
			a.rd = true
			a.kind += "+reader"
		}
		got := c16Load(t, a)
		res.Evaluations++
		docs := a.docs()
		res.SubSigs = append(res.SubSigs, core.Hash64(a.kind, strings.Join(docs, "\x00")))
		res.NonTrivial = true
		res.Count("probe_arrangement_"+a.kind, 1)
		am := map[string]interface{}{"kind": a.kind, "loads": docs, "rejected": got.rejected, "error": got.err}
		arrs = append(arrs, am)
		describe := func() string {
			return fmt.Sprintf("canonical arrangement (one document):\n%s\n--- %s arrangement (%d loads):\n%s", strings.Join(canon.docs(), ""), a.kind, len(docs), strings.Join(docs, "\n=== next load ===\n"))
		}
		if got.rejected != base.rejected {
			cls := "accepted_or_rejected_depending_on_arrangement:" + a.kind
			if strings.Contains(got.err, "PANIC") || strings.Contains(base.err, "PANIC") {
				cls = "panic_depending_on_arrangement:" + a.kind
			}
			res.Violate("C16", cls, fmt.Sprintf("canonical arrangement rejected=%v (%s), %s arrangement rejected=%v (%s)\n%s", base.rejected, base.err, a.kind, got.rejected, got.err, describe()), nil)
			return
		}
		if got.rejected {
			continue
		}
		if got.descS != base.descS {
			res.Violate("C16", "schema_differs:"+a.kind, fmt.Sprintf("the %s arrangement defines a different schema: %s\n%s", a.kind, firstDiffStr(base.descS, got.descS), describe()), nil)
			return
		}
		if !a.ext {
			if got.descU != base.descU {
				res.Violate("C16", "schema_member_order_differs:"+a.kind, fmt.Sprintf("the %s arrangement defines the members in a different order: %s\n%s", a.kind, firstDiffStr(base.descU, got.descU), describe()), nil)
				return
			}
			// The printed schema may differ legitimately (a directive use written
			// before the directive's definition prints without the defaulted
			// arguments), so it is left out of the comparison - but not the order in
			// which it lists the definitions, and nothing of the rest.
			if bo, gt := sdlOrder(base.obs.SDL), sdlOrder(got.obs.SDL); bo != gt {
				res.Violate("C16", "printed_definition_order_differs:"+a.kind, fmt.Sprintf("the %s arrangement prints the definitions in a different order: %s\n%s", a.kind, firstDiffStr(bo, gt), describe()), nil)
				return
			}
			bobs, gobs := *base.obs, *got.obs
			bobs.SDL, gobs.SDL = "", ""
			if d := bobs.Diff(&gobs); d != "" {
				cls := "introspection_differs:" + a.kind
				if strings.HasPrefix(d, "response") || strings.HasPrefix(d, "request") {
					cls = "requests_resolve_differently:" + a.kind
				}
				if strings.HasPrefix(d, "operation root") {
					cls = "operation_roots_differ:" + a.kind
				}
				res.Violate("C16", cls, fmt.Sprintf("the %s arrangement answers differently: %s\n%s", a.kind, d, describe()), nil)
				return
			}
		} else {
			if got.obs.Roots != base.obs.Roots {
				res.Violate("C16", "operation_roots_differ:"+a.kind, fmt.Sprintf("operation roots %v vs %v\n%s", base.obs.Roots, got.obs.Roots, describe()), nil)
				return
			}
			// requests that do not depend on member order (one field each) must
			// resolve identically
			want := map[string]string{}
			for i, rq := range base.obs.Requests {
				want[rq] = base.obs.Responses[i]
			}
			for i, rq := range got.obs.Requests {
				if strings.Contains(rq, "{ __typename") && !strings.HasSuffix(rq, "{ __typename } }") {
					continue // the composite selection lists fields in declaration order
				}
				if w, ok := want[rq]; ok && w != got.obs.Responses[i] {
					res.Violate("C16", "requests_resolve_differently:"+a.kind, fmt.Sprintf("request %s resolves differently: canonical %s vs %s\n%s", rq, w, got.obs.Responses[i], describe()), nil)
					return
				}
			}
		}
	}
	_ = ggql.Sort
	return
}

// sdlOrder lists the definitions of a printed schema in the order printed.
func sdlOrder(sdl string) string {
	var out []string
	for _, line := range strings.Split(sdl, "\n") {
		for _, kw := range []string{"type ", "interface ", "union ", "enum ", "input ", "scalar ", "directive ", "schema "} {
			if strings.HasPrefix(line, kw) {
				f := strings.Fields(line)
				if len(f) >= 2 {
					out = append(out, f[0]+" "+strings.TrimRight(f[1], "({"))
				}
			}
		}
	}
	return strings.Join(out, ", ")
}

func firstDiffStr(a, b string) string {
	i := 0
	for i < len(a) && i < len(b) && a[i] == b[i] {
		i++
	}
	lo := i - 80
	if lo < 0 {
		lo = 0
	}
	cut := func(s string) string {
		hi := i + 100
		if hi > len(s) {
			hi = len(s)
		}
		if lo > len(s) {
			return ""
		}
		return s[lo:hi]
	}
	return fmt.Sprintf("canonical %q vs %q", cut(a), cut(b))
}
