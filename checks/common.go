package checks

import (
	"sort"

	"verif/workload"
)

func subMatches(sb *workload.SimSub, topic string) bool { return sb.Topic == "" || sb.Topic == topic }

func sameSet(a, b []int) bool {
	if len(a) != len(b) {
		return false
	}
	x := append([]int(nil), a...)
	y := append([]int(nil), b...)
	sort.Ints(x)
	sort.Ints(y)
	for i := range x {
		if x[i] != y[i] {
			return false
		}
	}
	return true
}
