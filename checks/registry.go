package checks

import (
	"encoding/json"
	"os"

	"verif/sim/core"
)

var registry = map[string]core.Check{}

func register(c core.Check) { registry[c.ID()] = c }

func init() {
	register(C14{})
}

// Get returns the check for a property id.
func Get(id string) core.Check { return registry[id] }

// BudgetFor returns the exploration budget of a tier.
func BudgetFor(id, tier string) core.Budget {
	b := core.Budget{Secs: 35, ShrinkTry: 150}
	if tier == "thorough" {
		b.Secs = 600
		b.ShrinkTry = 600
	}
	return b
}

// WorkerEnv is extra environment for worker processes.
func WorkerEnv(id string) []string {
	return workerEnv(id)
}

// BuildInfo is recorded in the evidence (instrumentation statistics).
func BuildInfo() map[string]interface{} {
	out := map[string]interface{}{}
	if p := os.Getenv("VERIF_BUILD_INFO"); p != "" {
		var v interface{}
		if json.Unmarshal([]byte(p), &v) == nil {
			out["instrumentation"] = v
		} else {
			out["instrumentation"] = p
		}
	}
	return out
}
