package checks

import (
	"fmt"
	"sort"
	"strconv"
	"strings"

	"github.com/uhn/ggql/pkg/ggql"

	"verif/sim/core"
	"verif/sim/tape"
	"verif/workload"
)

// C11: resolving does not change the parsed request. One parsed Executable is
// subjected to a history of ResolveExecutable calls (operation name, variable
// map and resolver fault plan drawn per call); every call is compared with the
// same call on a freshly parsed copy of the document (reference model), and the
// printed form of the executable must stay what it was after parsing.
type C11 struct{}

func init() { register(C11{}) }

func (C11) ID() string      { return "C11" }
func (C11) Level() string   { return "exploration" }
func (C11) NeedsRace() bool { return false }
func (C11) Rule() string {
	return "a case is one history of 2-8 ResolveExecutable calls on one parsed document (several operations, variables with and without defaults, arguments out of declaration order, unknown arguments, " +
		"$variables inside literal input objects and lists, aliases, shared fragments), each call with its own operation name (including unknown and empty), variable map and resolver fault plan; " +
		"non-trivial = at least two calls executed resolvers and differed in operation or variables or fault; distinct = distinct hashes of (document, strategy, call sequence)"
}
func (C11) Assumptions() []string {
	return []string{
		"reference model = the same call on a freshly parsed copy of the same text, on the same root (root-level lazy state is C12's subject)",
		"responses are compared canonically (maps sorted, error lists as multisets) because the library's error order is map-derived at several sites; printed forms are compared per operation / fragment",
	}
}
func (C11) Components() map[string]string {
	return map[string]string{
		"pkg/ggql (ParseExecutable, ResolveExecutable, argument sorting/substitution/coercion, Executable.String)": "real",
		"resolvers / data graph": "stub (harness zoo), with injected failures in chosen calls",
		"reference model":        "fresh parse of the same document",
	}
}

func printedBlocks(exe *ggql.Executable) (out string) {
	// literal input objects are Go maps: without Sort their keys print in Go's
	// random map order, which is not a change of the executable
	ggql.Sort = true
	defer func() {
		if r := recover(); r != nil {
			out = "PANIC in String(): " + fmt.Sprint(r)
		}
	}()
	var blocks []string
	for name, op := range exe.Ops {
		blocks = append(blocks, "op "+name+":\n"+op.String())
	}
	for name, f := range exe.Fragments {
		blocks = append(blocks, "fragment "+name+":\n"+f.String())
	}
	sort.Strings(blocks)
	return strings.Join(blocks, "\n")
}

type c11Out struct {
	resp  string
	calls string
}

var c11Fired int

// setCallContext does what a caller does before a resolve: it puts its context
// for this call on the fields of every operation that the mask selects and
// takes it off the others (it only touches the operations' own fields).
func setCallContext(exe *ggql.Executable, ctx string, mask int) {
	for _, op := range exe.Ops {
		i := 0
		for _, sel := range op.Sels {
			if f, ok := sel.(*ggql.Field); ok {
				if mask&(1<<uint(i%4)) != 0 {
					f.Context = ctx
				} else {
					f.Context = nil
				}
				i++
			}
		}
	}
}

// c11Kept, when set, is the one variables map the caller of the re-used
// executable passes with every call (contents replaced before each call).
var c11Kept map[string]interface{}

func resolveExe(z *workload.Zoo, exe *ggql.Executable, op string, vars map[string]interface{}, plan *workload.FaultPlan, noBadLeaf bool) (o c11Out) {
	tr := &workload.Tracker{Plan: plan, NoBadLeaf: noBadLeaf}
	defer func() { c11Fired += len(tr.Fired) }()
	z.SetTracker(tr)
	defer z.SetTracker(nil)
	defer func() {
		if r := recover(); r != nil {
			o.resp = "PANIC: " + fmt.Sprint(r)
		}
		var cs []string
		for _, c := range tr.Calls {
			cs = append(cs, c.Type+"."+c.Field+c.Args)
		}
		o.calls = strings.Join(cs, "\n")
	}()
	v := map[string]interface{}{}
	if c11Kept != nil {
		// a caller that keeps one variables map and changes it between calls
		v = c11Kept
		for k := range v {
			delete(v, k)
		}
	}
	for k, x := range vars {
		v[k] = deepCopy(x) // the library coerces variable values in place
	}
	res, err := z.Root.ResolveExecutable(exe, op, v)
	m := map[string]interface{}{"data": nil}
	if res != nil {
		m = map[string]interface{}{}
		for k, x := range res {
			m[k] = x
		}
	}
	if err != nil {
		m["errors"] = ggql.FormErrorsResult(err)
	}
	o.resp = workload.Canon(m)
	return
}

// runSubscriptions is the subscription family of C11: one parsed subscription
// document is resolved several times (each call registers another subscriber,
// identified through the variable), then events are published; a twin world
// does the same with a fresh parse per call. The deliveries must be identical:
// the registration of a subscriber must not depend on the parsed document
// having been resolved before.
func (c C11) runSubscriptions(t *tape.Tape, opt core.RunOpt) (res core.Result) {
	envA, envB := &seqEnv{}, &seqEnv{}
	wa, errA := workload.NewSubWorld(envA)
	wb, errB := workload.NewSubWorld(envB)
	if errA != nil || errB != nil {
		res.Fatal = "cannot load the subscription schema"
		return
	}
	sel := t.Draw(len(workload.SubSelections))
	topic := []string{"", "a", "b"}[t.Draw(3)]
	src, op := wa.SubscriptionDoc(sel, topic)
	res.Evaluations = 1
	res.Sig = core.Hash64("c11sub", src)
	var hist []string
	defer func() {
		if opt.WantSample {
			res.Sample = map[string]interface{}{"family": "one parsed subscription document resolved several times", "document": src, "calls": hist}
		}
	}()
	exe, err := wa.Root.ParseExecutableString(src)
	if err != nil {
		res.Fatal = "subscription document rejected: " + err.Error()
		return
	}
	printed0 := printedBlocks(exe)
	// the caller gives the kept document its context once (its resolvers read
	// it while events are applied to the selection sets); a fresh parse gets the
	// same
	withCtx := t.Bool(1, 2)
	if withCtx {
		wa.ResolverEvents, wb.ResolverEvents = true, true
		exe.SetContextRecursive("kept")
		res.Count("probe_subscription_document_with_context", 1)
	}
	n := 2 + t.Draw(3)
	for sid := 1; sid <= n; sid++ {
		if sid > 1 && t.Bool(1, 3) {
			// an attempt the subscription resolver refuses (unknown subscriber):
			// whatever it touched on the parsed document must not reach the
			// subscribers registered through it before
			_, ra := wa.Root.ResolveExecutable(exe, op, map[string]interface{}{"sid": 99})
			fr, ferr := wb.Root.ParseExecutableString(src)
			if ferr != nil {
				res.Fatal = ferr.Error()
				return
			}
			if withCtx {
				fr.SetContextRecursive("kept")
			}
			_, rb := wb.Root.ResolveExecutable(fr, op, map[string]interface{}{"sid": 99})
			hist = append(hist, fmt.Sprintf("refused attempt (unknown subscriber 99) -> err=%v (fresh parse: err=%v)", ra != nil, rb != nil))
			if (ra == nil) != (rb == nil) {
				res.Violate("C11", "subscription_re_resolve_differs", fmt.Sprintf("refused subscription attempt: error %v, on a freshly parsed copy: %v\ndocument:\n%s", ra, rb, src), nil)
				return
			}
			ev := 500 + sid
			envA.log, envB.log = envA.log[:0], envB.log[:0]
			ca, pa := wa.Publish(topic, ev)
			cb, pb := wb.Publish(topic, ev)
			da, db := fmt.Sprint(envA.log), fmt.Sprint(envB.log)
			hist = append(hist, fmt.Sprintf("publish(%q, %d) -> count=%d err=%v deliveries=%s", topic, ev, ca, pa != nil, da))
			if ca != cb || (pa == nil) != (pb == nil) || da != db {
				res.Violate("C11", "subscription_deliveries_differ_after_re_resolve",
					fmt.Sprintf("one parsed subscription document: %d subscribers registered, then an attempt the resolver refused, then publish(%q, event %d):\n  count=%d err=%v deliveries %s\nwith a fresh parse per call:\n  count=%d err=%v deliveries %s\ndocument:\n%s", sid-1, topic, ev, ca, pa, da, cb, pb, db, src), nil)
				return
			}
		}
		failFrom, dropped := 0, false
		marks := t.Bool(1, 2)
		if t.Bool(1, 3) {
			// a subscriber whose k-th delivery fails (it is removed then): the
			// others registered through the same parsed document stay
			failFrom, dropped = 1+t.Draw(2), t.Bool(1, 2)
			res.Count("fault_subscriber_delivery_failure_planned", 1)
		}
		for _, w := range []*workload.SubWorld{wa, wb} {
			w.AddSub(&workload.SimSub{ID: sid, Topic: topic, SelIndex: sel, FailFrom: failFrom, Dropped: dropped, Marks: marks})
		}
		vars := map[string]interface{}{"sid": sid}
		_, ea := wa.Root.ResolveExecutable(exe, op, vars)
		fresh, ferr := wb.Root.ParseExecutableString(src)
		if ferr != nil {
			res.Fatal = ferr.Error()
			return
		}
		if withCtx {
			fresh.SetContextRecursive("kept")
		}
		_, eb := wb.Root.ResolveExecutable(fresh, op, map[string]interface{}{"sid": sid})
		res.Evaluations += 2
		hist = append(hist, fmt.Sprintf("resolve #%d with sid=%d -> err=%v (fresh parse: err=%v)", sid, sid, ea, eb))
		if (ea == nil) != (eb == nil) {
			res.Violate("C11", "subscription_re_resolve_differs", fmt.Sprintf("resolving the parsed subscription document for subscriber %d: error %v, a freshly parsed copy: %v\ndocument:\n%s", sid, ea, eb, src), nil)
			return
		}
		if p := printedBlocks(exe); p != printed0 {
			res.Violate("C11", "printed_form_changed", fmt.Sprintf("after registering subscriber %d the subscription document prints differently:\n%s\nvs after parsing:\n%s", sid, p, printed0), nil)
			return
		}
		if sid > 1 && t.Bool(1, 3) {
			// a subscriber that is registered already subscribes once more through
			// the kept document: the same Subscriber object behind the same parsed
			// field, a second registry entry all the same
			rs := 1 + t.Draw(sid-1)
			_, ra := wa.Root.ResolveExecutable(exe, op, map[string]interface{}{"sid": rs})
			fr, ferr := wb.Root.ParseExecutableString(src)
			if ferr != nil {
				res.Fatal = ferr.Error()
				return
			}
			if withCtx {
				fr.SetContextRecursive("kept")
			}
			_, rb := wb.Root.ResolveExecutable(fr, op, map[string]interface{}{"sid": rs})
			hist = append(hist, fmt.Sprintf("subscriber %d subscribes once more -> err=%v (fresh parse: err=%v)", rs, ra, rb))
			res.Count("probe_subscriber_subscribes_twice_through_kept_document", 1)
			if (ra == nil) != (rb == nil) {
				res.Violate("C11", "subscription_re_resolve_differs", fmt.Sprintf("subscriber %d subscribing once more: error %v, on a freshly parsed copy: %v\ndocument:\n%s", rs, ra, rb, src), nil)
				return
			}
		}
		// publish after every registration
		ev := 100 + sid
		envA.log, envB.log = envA.log[:0], envB.log[:0]
		ca, pa := wa.Publish(topic, ev)
		cb, pb := wb.Publish(topic, ev)
		da, db := fmt.Sprint(envA.log), fmt.Sprint(envB.log)
		hist = append(hist, fmt.Sprintf("publish(%q, %d) -> count=%d err=%v deliveries=%s", topic, ev, ca, pa != nil, da))
		if ca != cb || (pa == nil) != (pb == nil) || da != db {
			res.Violate("C11", "subscription_deliveries_differ_after_re_resolve",
				fmt.Sprintf("one parsed subscription document resolved %d times (one subscriber each), then publish(%q, event %d):\n  count=%d err=%v deliveries %s\nwith a fresh parse per subscriber:\n  count=%d err=%v deliveries %s\ndocument:\n%s", sid, topic, ev, ca, pa, da, cb, pb, db, src), nil)
			return
		}
	}
	res.NonTrivial = true
	res.Steps = n
	res.Count("probe_subscription_document_re_resolved", 1)
	return
}

func (c C11) Run(t *tape.Tape, opt core.RunOpt) (res core.Result) {
	if t.Bool(1, 8) {
		return c.runSubscriptions(t, opt)
	}
	strat := []workload.Strategy{workload.StratInterface, workload.StratAny, workload.StratReflect, workload.StratMixed}[t.Draw(4)]
	q := workload.GenZoo(t)
	if strat == workload.StratMixed {
		workload.DrawMixed(t, q)
	}
	z, err := workload.NewZoo(q, strat)
	if err != nil {
		res.Fatal = err.Error()
		return
	}
	req := workload.GenRequest(t, workload.ReqOpt{Strat: strat, MultiOp: true, VarInLiteral: strat != workload.StratReflect,
		ShuffleArgs: true, UnknownArgs: strat != workload.StratReflect, NoErrors: t.Bool(1, 2), MaxDepth: 2 + t.Draw(3),
		NoUnion:       strat == workload.StratInterface || (strat == workload.StratMixed && !(q.Raw["Dog"] && q.Raw["Bird"] && q.Raw["Keeper"] && q.Raw["Cell"])),
		Introspection: true, VarDirectivesInMeta: true, Pick: true, Span: true, Blob: true, Call: true, FragVars: true, Ghost: true, Relay: t.Bool(1, 2), Nick: true, BadDefaults: t.Bool(1, 3), Tune: t.Bool(1, 2), Stamps: true, Stash: strat != workload.StratReflect && strat != workload.StratMixed, Sized: strat != workload.StratReflect && strat != workload.StratMixed})
	res.Evaluations = 1
	res.Sig = core.Hash64("c11", strat.String(), req.Src)
	var hist []string
	defer func() {
		if opt.WantSample {
			res.Sample = map[string]interface{}{"strategy": strat.String(), "document": req.Src, "calls": hist}
		}
	}()
	exe, perr := z.Root.ParseExecutableString(req.Src)
	if perr != nil {
		res.Count("document_rejected_at_parse", 1)
		return
	}
	printed0 := printedBlocks(exe)
	ncalls := 2 + t.Draw(7)
	var sig []string
	executed := 0
	keepVars := t.Bool(1, 3)
	knob := t.Bool(1, 4)
	if knob {
		oldDepth := ggql.MaxResolveDepth
		defer func() { ggql.MaxResolveDepth = oldDepth }()
		res.Count("probe_depth_limit_changed_between_calls", 1)
	}
	growAt := -1
	regAt := -1
	if strat == workload.StratReflect && strings.Contains(req.Src, "echo(") && t.Bool(2, 3) {
		regAt = 1 + t.Draw(ncalls-1)
	}
	if strings.Contains(req.Src, "sized(") && t.Bool(2, 3) {
		growAt = 1 + t.Draw(ncalls-1)
	}
	useCtx := t.Bool(1, 3)
	if useCtx {
		res.Count("probe_caller_sets_a_context_on_operation_fields", 1)
	}
	kept := map[string]interface{}{}
	if keepVars {
		res.Count("probe_caller_keeps_one_variables_map", 1)
	}
	for i := 0; i < ncalls; i++ {
		ops := append([]string{}, req.Ops...)
		ops = append(ops, "", "NoSuchOp")
		op := ops[t.Draw(len(ops))]
		if t.Bool(1, 2) {
			op = req.Ops[t.Draw(len(req.Ops))]
		}
		vars := req.DrawVars(t)
		var plan *workload.FaultPlan
		fdesc := ""
		if t.Bool(1, 4) {
			k := 1 + t.Draw(8)
			kind := c06Kinds[t.Draw(len(c06Kinds))]
			if t.Bool(1, 4) {
				// the resolver panics and the caller recovers (as an HTTP server
				// does): the next call must not see anything left behind
				kind = workload.FaultPanic
			}
			plan = &workload.FaultPlan{FailAt: map[int]string{k: kind}}
			fdesc = fmt.Sprintf(" fault %s at invocation %d", kind, k)
		}
		if knob && i > 0 && t.Bool(1, 2) {
			// the application changes the library's depth limit between two calls
			// (small values cut the response off: a fresh parse is cut off the same)
			ggql.MaxResolveDepth = []int{2, 3, 4, 6, 100}[t.Draw(5)]
			hist = append(hist, fmt.Sprintf("ggql.MaxResolveDepth = %d", ggql.MaxResolveDepth))
		}
		if i == regAt {
			// a late registration: the field is served by another method from now
			// on, whose parameters come in another order
			// (refused while no value of the type has been seen yet: nothing changes then)
			err := z.Root.RegisterField("Query", "echo", "EchoRev", "n", "s")
			hist = append(hist, fmt.Sprintf(`RegisterField("Query", "echo", "EchoRev", "n", "s") -> %v`, err))
			if err == nil {
				res.Count("probe_field_registered_between_calls", 1)
			}
		}
		if i == growAt {
			// the schema grows between two calls: the enum gains a value that the
			// parsed document already uses
			if err := z.Root.ParseString("extend enum Size {\n  HUGE\n}\n"); err != nil {
				res.Fatal = "extending the enum failed: " + err.Error()
				return
			}
			hist = append(hist, "schema extended: extend enum Size { HUGE }")
			res.Count("probe_schema_extended_between_calls", 1)
		}
		c11Fired = 0
		if keepVars && t.Bool(3, 4) {
			c11Kept = kept
		}
		// the caller's per-call context on some of the operation's own fields
		// (resolvers find it on the *Field they are handed)
		ctxMask := 0
		if useCtx {
			ctxMask = t.Draw(16)
		}
		ctxVal := fmt.Sprintf("call%d", i+1)
		setCallContext(exe, ctxVal, ctxMask)
		got := resolveExe(z, exe, op, vars, plan, strat == workload.StratReflect)
		c11Kept = nil
		res.Count("fault_resolver_failure_fired", c11Fired)
		fresh, ferr := z.Root.ParseExecutableString(req.Src)
		if ferr != nil {
			res.Fatal = "fresh parse of an accepted document failed: " + ferr.Error()
			return
		}
		setCallContext(fresh, ctxVal, ctxMask)
		want := resolveExe(z, fresh, op, vars, plan, strat == workload.StratReflect)
		res.Evaluations += 2
		if got.calls != "" {
			executed++
		}
		call := fmt.Sprintf("call %d: op=%q vars=%s%s", i+1, op, workload.Canon(vars), fdesc)
		hist = append(hist, call+" -> "+got.resp)
		sig = append(sig, op, workload.Canon(vars), fdesc)
		if got.resp != want.resp {
			cls := "response_differs_from_fresh_parse"
			switch {
			case strings.Contains(want.resp, "is not an argument") && !strings.Contains(got.resp, "is not an argument"):
				cls = "unknown_argument_error_only_on_first_resolve"
			case strings.HasPrefix(got.resp, "PANIC") && !strings.HasPrefix(want.resp, "PANIC"):
				cls = "panic_on_re_resolve"
			}
			res.Violate("C11", cls, fmt.Sprintf("%s (%s strategy) on the re-used executable gives\n  %s\na freshly parsed copy gives\n  %s\ndocument:\n%s\nearlier calls:\n%s",
				call, strat, got.resp, want.resp, req.Src, strings.Join(hist[:len(hist)-1], "\n")), nil)
			return
		}
		if got.calls != want.calls {
			res.Violate("C11", "resolver_invocations_differ_from_fresh_parse", fmt.Sprintf("%s (%s strategy): resolver invocations on the re-used executable\n%s\non a freshly parsed copy\n%s\ndocument:\n%s",
				call, strat, got.calls, want.calls, req.Src), nil)
			return
		}
		if p := printedBlocks(exe); p != printed0 {
			cls := "printed_form_changed"
			if sortedChars(p) == sortedChars(printed0) {
				cls = "printed_form_changed:arguments_reordered"
			}
			res.Violate("C11", cls, fmt.Sprintf("after %s (%s strategy) the executable prints differently:\nafter parsing:\n%s\nnow:\n%s", call, strat, printed0, p), nil)
			return
		}
	}
	res.Sig = core.Hash64("c11", strat.String(), req.Src, strings.Join(sig, "|"))
	res.NonTrivial = executed >= 2
	res.Steps = ncalls
	res.Count("probe_calls_that_executed_resolvers", executed)
	if strings.Contains(req.Src, "$min") || strings.Contains(req.Src, "$nm") {
		res.Count("probe_variable_inside_literal_object_or_list", 1)
	}
	if strings.Contains(req.Src, "zz0:") || strings.Contains(req.Src, "zz1:") {
		res.Count("probe_document_with_unknown_argument", 1)
	}
	if len(req.BadDefault) > 0 {
		res.Count("probe_variable_default_that_does_not_fit", 1)
	}
	_ = strconv.Itoa
	return
}

func sortedChars(s string) string {
	b := []byte(s)
	sort.Slice(b, func(i, j int) bool { return b[i] < b[j] })
	return string(b)
}
