// Package checks holds the per-property checks.
package checks

import (
	"errors"
	"fmt"
	"io"
	"sort"
	"strings"

	"github.com/uhn/ggql/pkg/ggql"

	"verif/sim/core"
	"verif/sim/iosim"
	"verif/sim/tape"
	"verif/workload"
)

// C14: schema loading is all-or-nothing. A run is a history of load operations
// on one root (documents with at most one poison fragment, delivered through
// ParseString / Parse / ParseReader with reader faults / ParseFS over the
// simulated file system / AddTypes). After every operation the observation of
// the root must equal the observation before (failed load) or the observation
// of a fresh root that replays only the successful loads (model).
type C14 struct{}

func (C14) ID() string      { return "C14" }
func (C14) Level() string   { return "fault_enumeration" }
func (C14) NeedsRace() bool { return false }
func (C14) Rule() string {
	return "a case is one load operation (document x API x fault plan) executed on a root with a tape-drawn prior history; " +
		"reader-fault passes enumerate every byte offset of the document (thorough) or all offsets of documents <= 300 B and 64 sampled otherwise (quick). " +
		"non-trivial = the load failed after valid content / an extend / a schema block had been read, or a reader/fs fault fired inside the document, or a valid load followed a failed one; " +
		"distinct = distinct hashes of (history of operation kinds, poison kind, position, fault kind and offset, outcome)"
}
func (C14) Assumptions() []string {
	return []string{
		"observation of a root = SDL(true,true) + full introspection response + operation root type names + responses to a request set derived from the root's own schema, served by a schema-driven AnyResolver (stub)",
		"documents come from a fragment pool (all type kinds, extends of every kind, schema blocks, 5 poison classes); the space of all schema texts is only sampled",
		"input objects are extended by one field per extend block because Input.Extend iterates a Go map (order of several fields is not decided by the tape)",
	}
}
func (C14) Components() map[string]string {
	return map[string]string{
		"pkg/ggql (parser, Root.ParseReader/ParseFS/AddTypes, validation, introspection, resolver)": "real",
		"io.Reader / fs.FS":                "simulated (iosim) with injected faults",
		"data behind the request set":      "stub (schema-driven AnyResolver)",
		"reference model (last-good root)": "fresh Root replaying only the successful loads with the bytes actually delivered",
	}
}

type c14Load struct {
	API   string
	Bytes []byte
	Specs []*workload.TypeSpec
}

func applyLoad(root *ggql.Root, l *c14Load) error {
	if l.API == "AddTypes" {
		return root.AddTypes(buildSpecs(root, l.Specs)...)
	}
	return root.Parse(l.Bytes)
}

func buildSpecs(root *ggql.Root, specs []*workload.TypeSpec) []ggql.Type {
	var ts []ggql.Type
	for _, s := range specs {
		t := s.Build()
		if i, _ := t.(*ggql.Interface); i != nil {
			i.Root = root
		}
		if t != nil {
			ts = append(ts, t)
		}
	}
	return ts
}

func sdlBlocks(s string) map[string]string {
	out := map[string]string{}
	for _, b := range strings.Split(s, "\n\n") {
		b = strings.Trim(b, "\n")
		if b == "" {
			continue
		}
		// header = first line that is not part of a description
		lines := strings.Split(b, "\n")
		hdr := ""
		inDesc := false
		for _, ln := range lines {
			t := strings.TrimSpace(ln)
			if strings.HasPrefix(t, `"""`) {
				inDesc = !inDesc
				continue
			}
			if inDesc || strings.HasPrefix(t, `"`) {
				continue
			}
			hdr = t
			break
		}
		f := strings.Fields(hdr)
		key := hdr
		if len(f) >= 2 {
			key = f[0] + " " + strings.TrimRight(f[1], "{(")
		} else if len(f) == 1 {
			key = f[0]
		}
		out[key] = b
	}
	return out
}

// classifyChange names the channel through which a failed load changed a root.
func classifyChange(before, after *workload.Observation) string {
	if before.SDL != after.SDL {
		bb, ab := sdlBlocks(before.SDL), sdlBlocks(after.SDL)
		keys := func(m map[string]string) []string {
			ks := make([]string, 0, len(m))
			for k := range m {
				ks = append(ks, k)
			}
			sort.Strings(ks)
			return ks
		}
		// deterministic choice (sorted), coarse class: the kind of change, not the kind of type
		for _, k := range keys(ab) {
			if old, ok := bb[k]; ok && old != ab[k] {
				return "existing_type_changed:" + strings.Fields(k)[0]
			}
		}
		for _, k := range keys(ab) {
			if _, ok := bb[k]; !ok {
				return "type_added"
			}
		}
		for _, k := range keys(bb) {
			if _, ok := ab[k]; !ok {
				return "type_removed"
			}
		}
		return "sdl_changed"
	}
	if before.Roots != after.Roots {
		return "operation_roots_changed"
	}
	if before.Introspection != after.Introspection {
		return "introspection_changed"
	}
	return "responses_changed"
}

type c14Op struct {
	API     string   `json:"api"`
	Frags   []string `json:"fragments"`
	Doc     string   `json:"document,omitempty"`
	Fault   string   `json:"fault,omitempty"`
	Outcome string   `json:"outcome"`
}

// describedInterfacePoison pairs a field of a loaded object type with a field
// of a new interface that has a description (through an extension that makes
// the object implement the interface), in a document that then fails in
// validation for another reason: nothing of the pairing may stay on the loaded
// field.
func describedInterfacePoison(t *tape.Tape, gen *workload.Gen) (workload.Fragment, bool) {
	if !t.Bool(1, 6) {
		return workload.Fragment{}, false
	}
	o := gen.PickLoaded("object")
	if o == nil || len(o.Fields) == 0 || strings.HasPrefix(o.Name, "__") {
		return workload.Fragment{}, false
	}
	f := o.Fields[t.Draw(len(o.Fields))]
	sig := f.Name
	if len(f.Args) > 0 {
		var as []string
		for _, a := range f.Args {
			as = append(as, a.Name+": "+a.Type)
		}
		sig += "(" + strings.Join(as, ", ") + ")"
	}
	k := t.Draw(1000)
	return workload.Fragment{Kind: "poison:validation:described_interface_field_paired_with_loaded_field_then_invalid", Mutates: true,
		Text: fmt.Sprintf("interface ZDesc%d {\n  \"described by the interface\"\n  %s: %s\n}\nextend type %s implements ZDesc%d {\n}\ntype ZzBad%d {\n}\n", k, sig, f.Type, o.Name, k, k)}, true
}

// CrashIsViolation implements core.CrashChecker: a call that never returns
// because the library waits for a lock it leaked itself counts against the
// property (what follows the call cannot be as the property says).
func (C14) CrashIsViolation() string { return "C14" }

// RunTimeout implements core.CrashChecker (a run takes milliseconds).
func (C14) RunTimeout() float64 { return 60 }

// HangNeedsLibraryFrame implements core.HangAttributor.
func (C14) HangNeedsLibraryFrame() bool { return true }

// LibraryRunsOnOneGoroutine implements core.SequentialLibrary.
func (C14) LibraryRunsOnOneGoroutine() bool { return true }

func (c C14) Run(t *tape.Tape, opt core.RunOpt) (res core.Result) {
	// Two kinds of root: a synthetic one (empty at first, data fabricated from
	// the schema) and, in one run of four, a zoo root with real data behind a
	// drawn resolver strategy, already loaded and warmed up (lazy reflection
	// bindings in place) - failed loads must not disturb those either.
	newRoot := workload.NewSynthRoot
	zooMode := t.Bool(1, 4)
	var warm []string
	if zooMode {
		strat := []workload.Strategy{workload.StratReflect, workload.StratReflect, workload.StratInterface, workload.StratAny}[t.Draw(4)]
		q := workload.GenZoo(t)
		for i := 0; i < 2; i++ {
			r := workload.GenRequest(t, workload.ReqOpt{Strat: strat, NoErrors: true, MaxDepth: 3})
			warm = append(warm, r.Src)
		}
		newRoot = func() *ggql.Root {
			z, err := workload.NewZoo(q, strat)
			if err != nil {
				panic("cannot build zoo root: " + err.Error())
			}
			for _, w := range warm {
				_ = workload.SafeResolve(z.Root, w, "", nil)
			}
			return z.Root
		}
		res.Count("probe_runs_on_warm_zoo_root", 1)
	}
	root := newRoot()
	gen := &workload.Gen{T: t, GoExtends: zooMode, TypeNamedDirectives: true}
	var good []*c14Load
	var ops []c14Op
	var retry []workload.Fragment // valid fragments of the document refused last
	var sigParts []string
	nOps := 2 + t.Draw(4)
	failedBefore := false
	thorough := opt.Tier == "thorough"

	defer func() {
		res.Sig = core.Hash64(sigParts...)
		if opt.WantSample {
			res.Sample = map[string]interface{}{"history": ops}
		}
	}()

	chain, chainSent := t.Bool(1, 4), false
	// an application that runs with the relaxed switch on (enum values accepted
	// as JSON strings): loads, also refused ones, must leave it as it is
	oldRelaxed := ggql.Relaxed
	ggql.Relaxed = t.Bool(1, 2)
	defer func() { ggql.Relaxed = oldRelaxed }()
	for opi := 0; opi < nOps; opi++ {
		gen.St = workload.ReadSymTab(root, gen.N)
		gen.ResetDoc()
		poisoned := t.Bool(1, 2)
		if opi == 0 {
			poisoned = t.Bool(1, 4)
		}
		api := []string{"ParseString", "Parse", "ParseReader", "ParseReader", "ParseFS", "AddTypes"}[t.Draw(6)]
		nfr := 1 + t.Draw(4)
		var frags []workload.Fragment
		if api == "AddTypes" {
			for i := 0; i < nfr; i++ {
				f := gen.Valid()
				if f.Spec != nil && f.Spec.CanBuild() {
					frags = append(frags, f)
				}
			}
			if poisoned && t.Bool(1, 5) {
				// nothing but scalars implemented in Go in one call, the last of
				// them with a name that is refused
				frags = frags[:0]
				for k := 0; k < 1+t.Draw(2); k++ {
					sp := &workload.TypeSpec{Kind: "goscalar", Name: fmt.Sprintf("Zip%d", t.Draw(1000))}
					frags = append(frags, workload.Fragment{Kind: "new_goscalar", Text: sp.SDL(), Spec: sp})
				}
				bad := &workload.TypeSpec{Kind: "goscalar", Name: fmt.Sprintf("Zip-Code%d", t.Draw(10))}
				frags = append(frags, workload.Fragment{Kind: "poison:validation:go_scalar_with_a_refused_name", Text: bad.SDL(), Spec: bad})
			} else if poisoned {
				if sc := gen.PickLoaded("scalar"); sc != nil && t.Bool(1, 2) {
					// a Go implementation of a scalar the schema already declares,
					// in a call that fails (for this or for the next reason)
					sp := &workload.TypeSpec{Kind: "goscalar", Name: sc.Name}
					frags = append(frags, workload.Fragment{Kind: "go_scalar_named_like_a_loaded_scalar", Text: sp.SDL(), Spec: sp, Mutates: true})
				}
				frags = append(frags, addTypesPoison(gen))
			}
			if len(frags) == 0 {
				api = "Parse"
			}
		}
		if api != "AddTypes" {
			frags = frags[:0]
			gen.ResetDoc()
			if len(retry) > 0 && t.Bool(1, 2) {
				// the document that was refused last time, corrected (the poison
				// taken out) and submitted again: the names it defines were never
				// loaded, whatever the refused load did with them
				frags = append(frags, retry...)
				res.Count("probe_corrected_document_resubmitted", 1)
			} else {
				for i := 0; i < nfr; i++ {
					frags = append(frags, gen.Valid())
				}
				if chain && !chainSent && root.GetType("Zc1") == nil {
					// a chain of input types with defaults at every level, and
					// directive uses whose literals spell out the upper levels only
					chainSent = true
					frags = append(frags, workload.Fragment{Kind: "default_chain", Text: "input Zc1 {\n  a: Int = 3\n}\n" +
						"input Zc2 {\n  b: Int = 12\n  n: Zc1 = {}\n  l: [Zc1] = [{}]\n}\n" +
						"input Zc3 {\n  b: Int = 13\n  n: Zc2\n}\n" +
						"directive @zpol(p: Zc3 = {n: {}}) on OBJECT | FIELD_DEFINITION\n" +
						"type ZcUse @zpol(p: {n: {}}) {\n  f: Int @zpol(p: {b: 1, n: {n: {}}})\n  g: Int @zpol\n}\n"})
					res.Count("probe_default_chain_loaded", 1)
				}
			}
			retry = nil
			if poisoned && t.Bool(1, 3) {
				// make sure the refused document also carries an extension of a
				// loaded type that is fine by itself (it is applied before the
				// document fails)
				for k := 0; k < 6; k++ {
					if f := gen.Valid(); f.Mutates {
						frags = append([]workload.Fragment{f}, frags...)
						break
					}
				}
			}
			if poisoned && chainSent && root.GetType("Zc1") != nil && t.Bool(1, 3) {
				// an extension that gives a type of the chain another defaulted
				// field is applied, then the document fails in validation: the
				// literals written earlier must read as before
				k := t.Draw(9)
				tn := []string{"Zc1", "Zc2"}[t.Draw(2)]
				p := workload.Fragment{Kind: "poison:validation:extend_chain_input_then_invalid", Mutates: true,
					Text: fmt.Sprintf("extend input %s {\n  zz%d: Int = %d\n}\ntype ZzBad%d {\n}\n", tn, k, 1+k, k)}
				pos := t.Draw(len(frags) + 1)
				frags = append(frags[:pos], append([]workload.Fragment{p}, frags[pos:]...)...)
			} else if o := gen.PickLoaded("object"); poisoned && o != nil && !strings.HasPrefix(o.Name, "__") && t.Bool(1, 8) {
				// an extension with a description of its own on a loaded type, applied,
				// then the document fails in validation: the type reads as before
				k := t.Draw(1000)
				p := workload.Fragment{Kind: "poison:validation:described_extension_then_invalid", Mutates: true,
					Text: fmt.Sprintf("\"said by the extension\"\nextend type %s {\n  zzx%d: Int\n}\ntype ZzBad%d {\n}\n", o.Name, k, k)}
				pos := t.Draw(len(frags) + 1)
				frags = append(frags[:pos], append([]workload.Fragment{p}, frags[pos:]...)...)
			} else if p, ok := describedInterfacePoison(t, gen); poisoned && ok {
				pos := t.Draw(len(frags) + 1)
				frags = append(frags[:pos], append([]workload.Fragment{p}, frags[pos:]...)...)
			} else if poisoned {
				p := gen.Poison()
				pos := t.Draw(len(frags) + 1)
				frags = append(frags[:pos], append([]workload.Fragment{p}, frags[pos:]...)...)
				if t.Bool(1, 4) {
					// a second, independent reason to fail: whatever the loader does
					// about the first one (stop, or carry on and merge) the second still
					// makes the load fail
					p2 := gen.Poison()
					pos2 := t.Draw(len(frags) + 1)
					frags = append(frags[:pos2], append([]workload.Fragment{p2}, frags[pos2:]...)...)
				}
			}
		}
		op := c14Op{API: api}
		var doc strings.Builder
		mutBefore := false
		poisonKind := ""
		for _, f := range frags {
			op.Frags = append(op.Frags, f.Kind)
			doc.WriteString(f.Text)
			if pc := workload.PoisonClass(f.Kind); pc != "" {
				poisonKind = f.Kind
			} else if poisonKind == "" && f.Mutates {
				mutBefore = true
			}
		}
		data := []byte(doc.String())
		op.Doc = doc.String()

		var probes []workload.Probe
		for _, f := range frags {
			probes = append(probes, workload.ProbesFromText(f.Text)...)
		}
		before := workload.Observe(root)
		lookBefore := workload.ProbeLookups(root, probes)
		var err error
		var load *c14Load
		faultDesc := ""
		faultFired := false
		evals := 1

		switch api {
		case "ParseString":
			err = safeLoad(&res, func() error { return root.ParseString(string(data)) })
			load = &c14Load{API: api, Bytes: data}
		case "Parse":
			err = safeLoad(&res, func() error { return root.Parse(data) })
			load = &c14Load{API: api, Bytes: data}
		case "AddTypes":
			var specs []*workload.TypeSpec
			for _, f := range frags {
				specs = append(specs, f.Spec)
			}
			load = &c14Load{API: api, Specs: specs}
			err = safeLoad(&res, func() error { return applyLoad(root, load) })
		case "ParseReader":
			mode := t.Draw(8)
			if mode < 2 {
				// enumeration pass: sticky faults at every offset, on this very root:
				// each of them must fail and leave the root as it was.
				kind := iosim.ErrAt
				if t.Bool(1, 2) {
					kind = iosim.ErrWithByte
				}
				offs := make([]int, 0, len(data)+1)
				if thorough || len(data) <= 300 {
					for k := 0; k <= len(data); k++ {
						offs = append(offs, k)
					}
				} else {
					for i := 0; i < 64; i++ {
						offs = append(offs, t.Draw(len(data)+1))
					}
				}
				cheapBefore := workload.Cheap(root)
				for _, k := range offs {
					if kind == iosim.ErrWithByte && k >= len(data) {
						continue
					}
					r := iosim.NewReader(data, iosim.Plan{Kind: kind, K: k})
					e := safeLoad(&res, func() error { return root.ParseReader(r) })
					evals++
					res.SubSigs = append(res.SubSigs, core.Hash64("enum", op.Doc, kind.String(), fmt.Sprint(k)))
					if r.Fired {
						res.Count("fault_reader_"+kind.String(), 1)
					}
					if isPanic(e) {
						res.Evaluations += evals
						op.Outcome = e.Error() + " (run ends; crashes are C03's)"
						ops = append(ops, op)
						return
					}
					if e == nil {
						// a sticky reader error that the loader swallowed: no model (see below)
						res.Count("probe_reader_error_swallowed_load_succeeded", 1)
						res.Inconclusive++
						res.Evaluations += evals
						op.Fault = fmt.Sprintf("enumerate %s: swallowed at %d", kind, k)
						op.Outcome = "ok although the reader returned an error (no verdict; run ends)"
						ops = append(ops, op)
						return
					}
					if now := workload.Cheap(root); now != cheapBefore {
						after := workload.Observe(root)
						cls := classifyChange(before, after)
						res.Violate("C14", "failed_load_changed_state:"+cls,
							fmt.Sprintf("ParseReader failed (%v) with %s at byte %d of the document but the root changed: %s", e, kind, k, before.Diff(after)),
							map[string]interface{}{"document": op.Doc, "fault": fmt.Sprintf("%s@%d", kind, k)})
						res.Evaluations += evals
						op.Fault = fmt.Sprintf("enumerate %s, first leak at %d", kind, k)
						op.Outcome = "VIOLATION"
						ops = append(ops, op)
						return
					}
				}
				res.Count("probe_enumeration_passes", 1)
				sigParts = append(sigParts, "enum", kind.String(), poisonKind)
				faultDesc = "after enumerating " + kind.String() + " at " + fmt.Sprint(len(offs)) + " offsets"
				// fall through to a plain load of the document
				err = safeLoad(&res, func() error { return root.Parse(data) })
				load = &c14Load{API: "Parse", Bytes: data}
			} else {
				plan := iosim.Plan{}
				if mode < 7 {
					plan.Kind = iosim.Kind(1 + t.Draw(int(iosim.NumKinds)-1))
					plan.K = t.Draw(len(data) + 1)
					if t.Bool(1, 4) && len(data) > 0 {
						plan.K = len(data) - 1 - t.Draw(min(3, len(data)))
					}
					plan.M = 1 + t.Draw(3)
				}
				r := iosim.NewReader(data, plan)
				if t.Bool(1, 2) {
					// short reads (a pipe, a network body): a Read returns fewer bytes
					// than asked for long before the end
					r.Chunk = 1 + t.Draw(40)
				}
				var rd io.Reader = r
				var cl *iosim.Closer
				if t.Bool(1, 4) {
					// the reader is an io.ReadCloser whose Close fails
					cl = &iosim.Closer{Reader: r, Err: errors.New("iosim: close failed")}
					rd = cl
				}
				err = safeLoad(&res, func() error { return root.ParseReader(rd) })
				faultDesc = plan.String()
				faultFired = r.Fired
				if cl != nil && cl.Calls > 0 {
					faultDesc += " + failing Close"
					faultFired = true
					res.Count("fault_reader_close_error", 1)
				}
				if err == nil && r.Fired && (plan.Kind == iosim.Transient || plan.Kind == iosim.ErrAt || plan.Kind == iosim.ErrWithByte) {
					// The reader returned a real error and the loader reported success
					// (e.g. the error is dropped inside a union member list). C14 says
					// nothing about what such a load should contain, so there is no
					// model to compare with: the run ends without a verdict.
					res.Count("probe_reader_error_swallowed_load_succeeded", 1)
					res.Inconclusive++
					res.Evaluations += evals
					op.Fault = faultDesc
					op.Outcome = "ok although the reader returned an error (no verdict; run ends)"
					ops = append(ops, op)
					return
				}
				if r.Fired {
					res.Count("fault_reader_"+plan.Kind.String(), 1)
				}
				load = &c14Load{API: api, Bytes: append([]byte(nil), r.Delivered...)}
				sigParts = append(sigParts, plan.Kind.String(), fmt.Sprint(plan.K))
			}
		case "ParseFS":
			fsys := iosim.NewFS()
			nfiles := 1 + t.Draw(3)
			names := []string{"a.graphql", "b.graphql", "c.graphql"}[:nfiles]
			// distribute fragments over files, in order
			per := make([]strings.Builder, nfiles)
			for i, f := range frags {
				per[i*nfiles/len(frags)].WriteString(f.Text)
			}
			for i, n := range names {
				fsys.Files[n] = []byte(per[i].String())
			}
			fsys.Files["notes.txt"] = []byte("this is not SDL {")
			pats := []string{"*.graphql"}
			switch t.Draw(8) {
			case 0:
				fsys.Faults[names[t.Draw(nfiles)]] = iosim.FileFault{OpenErr: true}
				faultDesc = "open error"
			case 1:
				fsys.Faults[names[t.Draw(nfiles)]] = iosim.FileFault{CloseErr: true}
				faultDesc = "close error"
			case 2, 3:
				n := names[t.Draw(nfiles)]
				k := t.Draw(len(fsys.Files[n]) + 1)
				kind := []iosim.Kind{iosim.ErrAt, iosim.ErrWithByte, iosim.Transient, iosim.Truncate, iosim.ZeroReads}[t.Draw(5)]
				fsys.Faults[n] = iosim.FileFault{Read: iosim.Plan{Kind: kind, K: k, M: 1 + t.Draw(2)}, Chunk: 1 + t.Draw(64)}
				faultDesc = fmt.Sprintf("read %s@%d in %s", kind, k, n)
			case 4:
				pats = []string{"[bad"}
				faultDesc = "bad pattern"
				if t.Bool(1, 2) {
					// the malformed pattern comes after one that matches valid files
					pats = []string{"*.graphql", "[bad"}
					faultDesc = "bad pattern after a good one"
				}
			case 5:
				pats = []string{"*.graphql", "a.*"}
			}
			err = safeLoad(&res, func() error { return root.ParseFS(fsys, pats...) })
			for k, v := range fsys.Fired {
				res.Count("fault_"+k, v)
				faultFired = true
			}
			// what Parse is given when everything is read: every file that matches
			// the patterns, in the library's map iteration order (observed, not
			// controlled); a matching file the library did not open is appended,
			// so that a "successful" ParseFS that skipped it differs from the model
			order := append([]string(nil), fsys.Opened...)
			if pats[0] != "[bad" {
				for _, n := range names {
					seen := false
					for _, o := range order {
						if o == n {
							seen = true
						}
					}
					if !seen {
						order = append(order, n)
					}
				}
			}
			var cat []byte
			for _, n := range order {
				d := fsys.Files[n]
				if ff, ok := fsys.Faults[n]; ok && ff.Read.Kind == iosim.Truncate && ff.Read.K < len(d) {
					d = d[:ff.Read.K]
				}
				cat = append(cat, d...)
				cat = append(cat, '\n')
			}
			load = &c14Load{API: api, Bytes: cat}
			sigParts = append(sigParts, faultDesc)
		}
		res.Evaluations += evals
		op.Fault = faultDesc
		if isPanic(err) {
			op.Outcome = err.Error() + " (run ends; crashes are C03's)"
			ops = append(ops, op)
			return
		}
		after := workload.Observe(root)
		sigParts = append(sigParts, api, strings.Join(op.Frags, ","), fmt.Sprint(err == nil))
		if err != nil {
			op.Outcome = "error: " + oneLine(err.Error())
			res.Count("probe_failed_loads", 1)
			if poisonKind != "" {
				res.Count("probe_poison_"+workload.PoisonClass(poisonKind), 1)
			}
			if mutBefore {
				res.Count("probe_failure_after_applied_extend_or_schema_block", 1)
			}
			if len(good) == 0 {
				res.Count("probe_failure_in_first_load", 1)
			}
			if len(good) > 0 || len(frags) > 1 || faultFired {
				res.NonTrivial = true
			}
			if d := before.Diff(after); d != "" {
				cls := classifyChange(before, after)
				res.Violate("C14", "failed_load_changed_state:"+cls,
					fmt.Sprintf("%s returned an error (%s) but the root is not as before: %s", api, oneLine(err.Error()), d),
					map[string]interface{}{"document": op.Doc, "fault": faultDesc, "poison": poisonKind})
				op.Outcome = "VIOLATION after " + op.Outcome
				ops = append(ops, op)
				return
			}
			if la := workload.ProbeLookups(root, probes); la != lookBefore {
				res.Violate("C14", "failed_load_changed_state:member_lookup_changed",
					fmt.Sprintf("%s returned an error (%s); printing and introspection are unchanged but looking members up by name is not (the name->member maps that coercion, field resolution and duplicate checks use): before %q, after %q", api, oneLine(err.Error()), lookBefore, la),
					map[string]interface{}{"document": op.Doc, "fault": faultDesc, "poison": poisonKind})
				op.Outcome = "VIOLATION after " + op.Outcome
				ops = append(ops, op)
				return
			}
			if failedBefore && load != nil && !faultFired && faultDesc == "" && poisonKind == "" {
				// no poison, no fault: is the load refused only because of what an
				// earlier refused load left behind? ("a later valid load behaves as
				// if the failed one had never happened")
				m := newRoot()
				ok := true
				for _, g := range good {
					if e := safeLoad(&res, func() error { return applyLoad(m, g) }); e != nil {
						ok = false
					}
				}
				if ok {
					if e := safeLoad(&res, func() error { return applyLoad(m, load) }); e == nil {
						res.Violate("C14", "valid_load_refused_after_failed_load",
							fmt.Sprintf("%s returned an error (%s) for a document that a fresh root with the same %d successful loads accepts: the refusal comes from what an earlier failed load left behind", api, oneLine(err.Error()), len(good)),
							map[string]interface{}{"document": op.Doc})
						op.Outcome = "VIOLATION after " + op.Outcome
						ops = append(ops, op)
						return
					}
				}
			}
			failedBefore = true
			if api != "AddTypes" && poisonKind != "" {
				retry = retry[:0]
				for _, f := range frags {
					if workload.PoisonClass(f.Kind) == "" {
						retry = append(retry, f)
					}
				}
			}
		} else {
			op.Outcome = "ok"
			res.Count("probe_successful_loads", 1)
			if failedBefore {
				res.Count("probe_success_after_failure", 1)
				res.NonTrivial = true
			}
			if faultFired {
				res.Count("probe_success_despite_fault", 1)
				res.NonTrivial = true
			}
			good = append(good, load)
			model := newRoot()
			for i, l := range good {
				if e := safeLoad(&res, func() error { return applyLoad(model, l) }); e != nil {
					res.Violate("C14", "model_replay_failed",
						fmt.Sprintf("replaying successful load %d of %d on a fresh root failed: %v", i+1, len(good), e),
						map[string]interface{}{"document": string(l.Bytes)})
					op.Outcome = "VIOLATION (model replay failed)"
					ops = append(ops, op)
					return
				}
			}
			mo := workload.Observe(model)
			if lm, lr := workload.ProbeLookups(model, probes), workload.ProbeLookups(root, probes); lm != lr {
				res.Violate("C14", "root_differs_from_model_after_valid_load:member_lookup",
					fmt.Sprintf("after a history containing failed loads, looking members up by name differs from a fresh root that replayed only the %d successful loads: model %q, root %q", len(good), lm, lr),
					map[string]interface{}{"document": op.Doc, "failed_before": failedBefore})
				op.Outcome = "VIOLATION after ok"
				ops = append(ops, op)
				return
			}
			if d := mo.Diff(after); d != "" {
				cls := "sdl"
				switch {
				case mo.SDL != after.SDL:
				case mo.Roots != after.Roots:
					cls = "operation_roots"
				case mo.Introspection != after.Introspection:
					cls = "introspection"
				default:
					cls = "responses"
				}
				res.Violate("C14", "root_differs_from_model_after_valid_load:"+cls,
					fmt.Sprintf("after a history containing failed loads the root differs from a fresh root that replayed only the %d successful loads: model vs root: %s", len(good), d),
					map[string]interface{}{"document": op.Doc, "failed_before": failedBefore})
				op.Outcome = "VIOLATION after ok"
				ops = append(ops, op)
				return
			}
		}
		ops = append(ops, op)
	}
	return
}

func oneLine(s string) string {
	s = strings.ReplaceAll(s, "\n", " ")
	if len(s) > 200 {
		s = s[:200] + "..."
	}
	return s
}

// safeLoad converts a panic / livelock sentinel inside a load into an error
// plus a counter; C03 owns that property, C14 only needs to carry on.
func safeLoad(res *core.Result, f func() error) (err error) {
	defer func() {
		if r := recover(); r != nil {
			res.Count("probe_panic_during_load", 1)
			err = panicErr{fmt.Sprint(r)}
		}
	}()
	return f()
}

// panicErr marks a load that panicked instead of returning: the property is
// about loads that return an error, so the run ends there without a C14
// verdict (C03 owns crashes).
type panicErr struct{ msg string }

func (p panicErr) Error() string { return "panic: " + p.msg }

func isPanic(err error) bool {
	_, ok := err.(panicErr)
	return ok
}

func addTypesPoison(g *workload.Gen) workload.Fragment {
	objs := g.St.OfKind("object")
	switch g.T.Draw(5) {
	case 0:
		if len(objs) > 0 {
			s := &workload.TypeSpec{Kind: "object", Name: objs[0].Name, Fields: []workload.FieldSpec{{Name: "a", Type: &workload.TExpr{Name: "Int"}}}}
			return workload.Fragment{Kind: "poison:duplicate:object", Text: s.SDL(), Spec: s}
		}
	case 1:
		s := &workload.TypeSpec{Kind: "object", Name: fmt.Sprintf("TP%d", g.T.Draw(1000)), Fields: []workload.FieldSpec{{Name: "a", Type: &workload.TExpr{Name: "NopeAT"}}}}
		return workload.Fragment{Kind: "poison:undefined_ref:0", Text: s.SDL(), Spec: s}
	case 2:
		s := &workload.TypeSpec{Kind: "object", Name: fmt.Sprintf("__TP%d", g.T.Draw(1000)), Fields: []workload.FieldSpec{{Name: "a", Type: &workload.TExpr{Name: "Int"}}}}
		return workload.Fragment{Kind: "poison:validation:reserved_type_name", Text: s.SDL(), Spec: s}
	case 3:
		s := &workload.TypeSpec{Kind: "union", Name: fmt.Sprintf("UP%d", g.T.Draw(1000)), Members: []string{"Int"}}
		return workload.Fragment{Kind: "poison:validation:union_of_non_object", Text: s.SDL(), Spec: s}
	}
	s := &workload.TypeSpec{Kind: "object", Name: fmt.Sprintf("TP%d", g.T.Draw(1000))}
	return workload.Fragment{Kind: "poison:validation:empty_object", Text: s.SDL(), Spec: s}
}
