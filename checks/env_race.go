//go:build race

package checks

import (
	"fmt"
	"os"
)

func workerEnv(id string) []string {
	dir := os.Getenv("VERIF_SCRATCH")
	if dir == "" {
		dir = os.TempDir()
	}
	return []string{fmt.Sprintf("GORACE=halt_on_error=0 suppress_equal_stacks=0 suppress_equal_addresses=0 history_size=2 log_path=%s/race", dir)}
}
