//go:build verifsim

package checks

import (
	"encoding/json"
	"fmt"
	"os"
	"runtime"
	"runtime/debug"
	"sort"
	"strings"
	"unsafe"

	"github.com/uhn/ggql/pkg/ggql"

	"verif/sim/core"
	"verif/sim/sched"
)

// simHook connects the instrumented package to the scheduler of the current
// run. Outside a run (setup, baselines, post-processing) it falls through to
// plain behaviour.
type simHook struct {
	s *sched.Sched
}

//go:norace
func (h *simHook) Lock(m unsafe.Pointer, name string, try func() bool) {
	if !h.s.Active() {
		// outside a run (set-up of a run: sequential, nothing else executes
		// library code): a lock that is not free can only be held by the caller
		// itself, which would block forever
		for i := 0; !try(); i++ {
			if i > 2000000 {
				panic("deadlock outside a scheduled run: the caller waits for the lock " + name + " which is held although no other goroutine runs library code (it holds the lock itself)")
			}
			runtime.Gosched()
		}
		return
	}
	h.s.Lock(uintptr(m), name, try)
}

//go:norace
func (h *simHook) Unlocked(m unsafe.Pointer) {
	if !h.s.Active() {
		return
	}
	h.s.Unlocked(uintptr(m), "")
}

//go:norace
func (h *simHook) Wait(what string) {
	if !h.s.Active() {
		runtime.Gosched()
		return
	}
	h.s.WaitPoint(what)
}

//go:norace
func (h *simHook) Atomic() {
	if !h.s.Active() {
		return
	}
	h.s.Point("atomic", "atomic", "")
}

//go:norace
func (h *simHook) Unsupported(what string) { h.s.NoteUnsupported(what) }

//go:norace
func (h *simHook) Go(fn func()) { h.s.Spawn(fn) }

//go:norace
func (h *simHook) TryLock(m unsafe.Pointer, name string, shared bool, try func() bool) bool {
	if !h.s.Active() {
		return try()
	}
	return h.s.TryLock(uintptr(m), name, shared, try)
}

//go:norace
func (h *simHook) RLock(m unsafe.Pointer, name string, try func() bool) {
	if !h.s.Active() {
		for i := 0; !try(); i++ {
			if i > 2000000 {
				panic("deadlock outside a scheduled run: the caller waits for a read lock on " + name + " which is write-held although no other goroutine runs library code")
			}
			runtime.Gosched()
		}
		return
	}
	h.s.RLock(uintptr(m), name, try)
}

//go:norace
func (h *simHook) RUnlocked(m unsafe.Pointer) {
	if !h.s.Active() {
		return
	}
	h.s.RUnlocked(uintptr(m), "")
}

//go:norace
func (h *simHook) Access(id int, addr func() unsafe.Pointer, write bool, site string) {
	if !h.s.Active() {
		return
	}
	var p uintptr
	func() {
		defer func() { _ = recover() }()
		p = uintptr(addr())
	}()
	h.s.Access(ggql.VerifFieldNames[id], p, write, site)
}

//go:norace
func (h *simHook) MapOrder(n int) int {
	if !h.s.Active() {
		return 0
	}
	return h.s.Choose(n)
}

// raceLog reads the race detector's log file incrementally.
type raceLog struct {
	path string
	off  int64
}

var theRaceLog *raceLog

func getRaceLog() *raceLog {
	if theRaceLog == nil {
		dir := os.Getenv("VERIF_SCRATCH")
		if dir == "" {
			dir = os.TempDir()
		}
		theRaceLog = &raceLog{path: fmt.Sprintf("%s/race.%d", dir, os.Getpid())}
	}
	return theRaceLog
}

func (r *raceLog) readNew() string {
	f, err := os.Open(r.path)
	if err != nil {
		return ""
	}
	defer f.Close()
	st, err := f.Stat()
	if err != nil || st.Size() <= r.off {
		return ""
	}
	buf := make([]byte, st.Size()-r.off)
	n, _ := f.ReadAt(buf, r.off)
	r.off += int64(n)
	return string(buf[:n])
}

// raceReport is one parsed TSan report.
type raceReport struct {
	Class   string
	Text    string
	Harness bool // no pkg/ggql frame in either access stack
}

// parseRaces splits the detector's text into reports and classifies each by
// the innermost pkg/ggql function of the two conflicting accesses.
func parseRaces(text string) []raceReport {
	var out []raceReport
	for _, blk := range strings.Split(text, "==================") {
		if !strings.Contains(blk, "WARNING: DATA RACE") {
			continue
		}
		lines := strings.Split(blk, "\n")
		var stanzas [][]string
		var cur []string
		inAccess := false
		for _, ln := range lines {
			t := strings.TrimSpace(ln)
			switch {
			case strings.HasPrefix(t, "Read at") || strings.HasPrefix(t, "Write at") ||
				strings.HasPrefix(t, "Previous read at") || strings.HasPrefix(t, "Previous write at") ||
				strings.HasPrefix(t, "Atomic") || strings.HasPrefix(t, "Previous atomic"):
				if cur != nil {
					stanzas = append(stanzas, cur)
				}
				cur = []string{t}
				inAccess = true
			case strings.HasPrefix(t, "Goroutine "):
				if cur != nil {
					stanzas = append(stanzas, cur)
					cur = nil
				}
				inAccess = false
			case inAccess && t != "":
				cur = append(cur, t)
			}
		}
		if cur != nil {
			stanzas = append(stanzas, cur)
		}
		if strings.Contains(blk, "verif/checks.runScheduled()") {
			// the hook variable being re-installed for a later pass while the tasks
			// of an earlier, deadlocked pass (never joined) had read it: not a race
			// of the code under test
			continue
		}
		var funcs []string
		harnessTop := false
		for _, st := range stanzas {
			fn := ""
			for i := 1; i < len(st); i++ {
				if strings.Contains(st[i], "github.com/uhn/ggql/pkg/ggql.") && !strings.Contains(st[i], "Verif") && !strings.Contains(st[i], "verifAccess") {
					fn = st[i]
					if j := strings.Index(fn, "("); j >= 0 && strings.HasSuffix(fn, "()") {
						fn = fn[:len(fn)-2]
					}
					fn = strings.TrimPrefix(fn, "github.com/uhn/ggql/pkg/ggql.")
					break
				}
			}
			if len(st) > 1 && (strings.HasPrefix(st[1], "verif/") || strings.Contains(st[1], "verif/workload") || strings.Contains(st[1], "verif/checks")) {
				harnessTop = true
			}
			if fn != "" {
				funcs = append(funcs, fn)
			}
		}
		rr := raceReport{Text: strings.TrimSpace(blk)}
		if len(funcs) == 0 {
			rr.Harness = true
			rr.Class = "race:harness-only"
		} else {
			sort.Strings(funcs)
			rr.Class = "race:" + strings.Join(funcs, " <-> ")
			if harnessTop {
				rr.Class += " (access in harness call-out)"
			}
		}
		out = append(out, rr)
	}
	return out
}

// runScheduled installs the hook, runs the scheduler with the GC off (address
// identity for the vector-clock check) and returns the race reports of the run.
// sequentialSetup runs library calls that a check makes before the scheduled
// part of a run, with the hook installed (scheduler not active): a lock that the
// caller already holds is then reported instead of blocking the process.
func sequentialSetup(s *sched.Sched, f func()) (deadlock string) {
	ggql.VerifSimHook = &simHook{s: s}
	defer func() {
		ggql.VerifSimHook = nil
		if r := recover(); r != nil {
			if msg := fmt.Sprint(r); strings.HasPrefix(msg, "deadlock outside a scheduled run") {
				deadlock = msg
				return
			}
			panic(r)
		}
	}()
	f()
	return ""
}

func runScheduled(s *sched.Sched) []raceReport {
	before := sched.RaceErrors()
	rl := getRaceLog()
	_ = rl.readNew() // skip anything written before this run
	old := debug.SetGCPercent(-1)
	ggql.VerifSimHook = &simHook{s: s}
	s.Run()
	ggql.VerifSimHook = nil
	debug.SetGCPercent(old)
	if sched.RaceErrors() == before {
		return nil
	}
	return parseRaces(rl.readNew())
}

// schedVerdicts turns scheduler-level outcomes (races, deadlock, runaway) into
// violations of prop.
func schedVerdicts(res *core.Result, prop string, s *sched.Sched, races []raceReport) {
	seen := map[string]bool{}
	for _, r := range races {
		if r.Harness {
			res.Fatal = "race report without any pkg/ggql frame (harness bug):\n" + r.Text
			return
		}
		if seen[r.Class] {
			continue
		}
		seen[r.Class] = true
		res.Violate(prop, r.Class, "data race reported by the race detector under the simulated schedule:\n"+r.Text,
			map[string]interface{}{"schedule_tail": s.Trace(40)})
	}
	for _, v := range s.VCRaces {
		if vcDisabled() {
			// the tree synchronises with something other than mutexes (atomics,
			// Once, channels ...): vector clocks over lock events alone would call
			// correctly synchronised accesses races. The race detector, which
			// understands those primitives, remains.
			res.Count("vc_check_disabled_tree_uses_other_synchronisation", 1)
			break
		}
		a, b := v.PrevSite, v.Site
		if a > b {
			a, b = b, a
		}
		cls := "vcrace:" + v.Field + ":" + stripLine(a) + " <-> " + stripLine(b)
		if seen[cls] {
			continue
		}
		seen[cls] = true
		res.Violate(prop, cls,
			fmt.Sprintf("accesses to %s not ordered by any lock of the library (vector clocks over the library's own lock events): task %d %s at %s, then task %d %s at %s",
				v.Field, v.PrevTask, rw(v.PrevW), v.PrevSite, v.Task, rw(v.Write), v.Site),
			map[string]interface{}{"schedule_tail": s.Trace(40)})
	}
	if s.Unsupported != "" {
		res.Fatal = "the code under test uses something the simulator cannot model: " + s.Unsupported
		return
	}
	if s.Deadlock != "" {
		res.Violate(prop, "deadlock", "no task can run: "+s.Deadlock, map[string]interface{}{"schedule_tail": s.Trace(60)})
	}
	if s.Runaway {
		res.Violate(prop, "runaway", fmt.Sprintf("step budget exhausted: %d scheduling points, or a million watched accesses by one task without reaching one (livelock, or work that grows without bound?)", s.Cfg.MaxSteps),
			map[string]interface{}{"schedule_tail": s.Trace(60)})
	}
	for _, t := range s.Tasks() {
		if t.Panic != nil && s.Deadlock == "" && !s.Runaway {
			res.Violate(prop, "task_panic", fmt.Sprintf("task %s panicked: %v", t.Name, t.Panic), map[string]interface{}{"schedule_tail": s.Trace(40)})
		}
	}
}

var vcOff = -1

func vcDisabled() bool {
	if vcOff < 0 {
		vcOff = 0
		var info struct {
			Other []string `json:"other_sync_primitives_not_owned_by_simulator"`
		}
		if json.Unmarshal([]byte(os.Getenv("VERIF_BUILD_INFO")), &info) == nil {
			for _, o := range info.Other {
				if strings.HasPrefix(o, "sync") || strings.HasPrefix(o, "channel") || strings.HasPrefix(o, "go statement") {
					vcOff = 1
				}
			}
		}
	}
	return vcOff == 1
}

func rw(w bool) string {
	if w {
		return "write"
	}
	return "read"
}

// stripLine keeps the file of a site ("root.go:214" -> "root.go"): line numbers
// move with unrelated edits, classes should not.
func stripLine(site string) string {
	if i := strings.Index(site, ":"); i >= 0 {
		return site[:i]
	}
	return site
}
