package checks

import (
	"fmt"
	"runtime/debug"
	"strconv"
	"strings"

	"github.com/uhn/ggql/pkg/ggql"

	"verif/sim/core"
	"verif/sim/iosim"
	"verif/sim/tape"
	"verif/workload"
)

// C03: nothing crashes or hangs. The part decided here is the fault half of the
// property: every entry point that reads from an io.Reader / fs.FS or writes to
// an io.Writer is driven with faults enumerated at every byte offset / write
// call; the input half (all byte strings, all variable maps) is only sampled,
// with generated documents and byte-level mutations of them.
type C03 struct{}

func init() { register(C03{}) }

func (C03) ID() string      { return "C03" }
func (C03) Level() string   { return "fault_enumeration" }
func (C03) NeedsRace() bool { return false }
func (C03) Rule() string {
	return "a case is one call of an entry point (ParseReader, ParseExecutableReader, ResolveReader under 3 resolver strategies, ParseValue, ParseFS, Type.Write / WriteSDLValue / WriteJSONValue) with one document and one fault: " +
		"reader faults {error, error with byte, transient error, truncation} at every byte offset (thorough; quick: every offset of documents <= 200 B, 48 sampled otherwise, one drawn kind per offset), last byte together with EOF, zero-length reads; fs open/read/close faults per file; writer failure or short write at every write call. " +
		"Sampled input half: generated documents plus byte mutations (delete / duplicate / flip / NUL / unbalanced brace), self-referential fragments, omitted / null / mistyped arguments, random JSON-shaped variable maps. " +
		"non-trivial = the fault fired inside the document; distinct = distinct hashes of (entry, document, fault kind, offset)"
}
func (C03) Assumptions() []string {
	return []string{
		"'for all byte strings / all variable maps' is a pure input space and is only sampled; no coverage claim is made about it",
		"a call that keeps calling Read after the read budget (4*len+64 calls) is reported as a livelock; a run that does not return within 20 s is re-run alone in a fresh process and reported as a hang only if that does not return either (the only use of a real clock, as a backstop)",
		"at most 3 consecutive zero-length reads are injected (an unbounded run of them hangs io.ReadAll too and is outside any reader contract)",
	}
}
func (C03) Components() map[string]string {
	return map[string]string{
		"pkg/ggql (scanner, SDL and executable parsers, validation, resolver incl. reflection calls, printers, value writer)": "real",
		"io.Reader / fs.FS / io.Writer": "simulated (iosim) with injected faults",
		"resolvers / data graph":        "stub (harness zoo, three strategies)",
		"crash detection":               "panics recovered per call; fatal errors (stack overflow) and hangs detected at process level: the worker journals the run it is about to execute and a dead or stuck worker's run is re-executed alone in a fresh child process",
	}
}

// CrashIsViolation implements core.CrashChecker.
func (C03) CrashIsViolation() string { return "C03" }

// RunTimeout implements core.CrashChecker.
func (C03) RunTimeout() float64 { return 20 }

var c03StackSet bool

type c03Query struct{ A int }

type c03Schema struct{ Query *c03Query }

type c03Ctx struct {
	res   *core.Result
	calls int
}

// guard runs one call; a panic becomes a violation whose class names the entry
// point and the panic message without addresses.
func (c *c03Ctx) guard(entry, what string, doc string, f func()) {
	c.calls++
	defer func() {
		if r := recover(); r != nil {
			switch v := r.(type) {
			case iosim.ReadBudgetExceeded:
				c.res.Violate("C03", "livelock:"+entry, fmt.Sprintf("%s %s: still reading after %d Read calls on a %d byte document (does not stop after a reader error / EOF)\ndocument:\n%s", entry, what, v.Calls, len(doc), doc), nil)
			case iosim.WriteBudgetExceeded:
				c.res.Violate("C03", "livelock:"+entry, fmt.Sprintf("%s %s: still writing after %d Write calls", entry, what, v.Calls), nil)
			default:
				msg := fmt.Sprint(r)
				c.res.Violate("C03", "panic:"+entry+":"+panicClass(msg), fmt.Sprintf("%s %s panicked: %s\ndocument:\n%s\n%s", entry, what, msg, doc, shortStack()), nil)
			}
		}
	}()
	f()
}

func panicClass(msg string) string {
	// drop addresses and numbers so that one defect is one class
	var b strings.Builder
	for _, r := range msg {
		if r >= '0' && r <= '9' {
			continue
		}
		b.WriteRune(r)
	}
	s := b.String()
	if i := strings.Index(s, "goroutine"); i > 0 {
		s = s[:i]
	}
	if len(s) > 90 {
		s = s[:90]
	}
	return strings.TrimSpace(s)
}

func shortStack() string {
	st := string(debug.Stack())
	var out []string
	for _, ln := range strings.Split(st, "\n") {
		if strings.Contains(ln, "pkg/ggql") {
			out = append(out, strings.TrimSpace(ln))
		}
		if len(out) >= 8 {
			break
		}
	}
	return strings.Join(out, "\n")
}

func mutateDoc(t *tape.Tape, doc string) (string, string) {
	b := []byte(doc)
	if len(b) == 0 {
		return doc, "none"
	}
	i := t.Draw(len(b))
	switch t.Draw(9) {
	case 0:
		return string(append(b[:i:i], b[i+1:]...)), "delete byte " + strconv.Itoa(i)
	case 1:
		return string(append(b[:i:i], append([]byte{b[i]}, b[i:]...)...)), "duplicate byte " + strconv.Itoa(i)
	case 2:
		b[i] ^= byte(1 << uint(t.Draw(8)))
		return string(b), "flip a bit of byte " + strconv.Itoa(i)
	case 3:
		return string(append(b[:i:i], append([]byte{0}, b[i:]...)...)), "insert NUL at " + strconv.Itoa(i)
	case 4:
		c := []byte("{}()[]\"@$!:|&=#.\\")[t.Draw(17)]
		return string(append(b[:i:i], append([]byte{c}, b[i:]...)...)), "insert " + strconv.Quote(string(c)) + " at " + strconv.Itoa(i)
	case 5:
		return string(b[:i]), "cut at " + strconv.Itoa(i)
	case 6:
		return "\xef\xbb\xbf" + doc, "prepend BOM"
	case 7:
		return strings.ReplaceAll(doc, "\n", "\r\n"), "CRLF"
	}
	return doc, "none"
}

func readerPlans(t *tape.Tape, n int, thorough bool) []iosim.Plan {
	var offs []int
	if thorough || n <= 200 {
		for k := 0; k <= n; k++ {
			offs = append(offs, k)
		}
	} else {
		for i := 0; i < 48; i++ {
			offs = append(offs, t.Draw(n+1))
		}
	}
	kinds := []iosim.Kind{iosim.ErrAt, iosim.ErrWithByte, iosim.Transient, iosim.Truncate}
	var plans []iosim.Plan
	for _, k := range offs {
		if thorough {
			for _, kd := range kinds {
				plans = append(plans, iosim.Plan{Kind: kd, K: k})
			}
		} else {
			plans = append(plans, iosim.Plan{Kind: kinds[t.Draw(len(kinds))], K: k})
		}
	}
	plans = append(plans, iosim.Plan{Kind: iosim.EOFWithByte})
	// an expired read deadline: the error says Temporary() / Timeout() and every
	// later Read fails the same way
	for i := 0; i < 3; i++ {
		plans = append(plans, iosim.Plan{Kind: []iosim.Kind{iosim.ErrAt, iosim.ErrWithByte}[t.Draw(2)], K: t.Draw(n + 1), Timeout: true})
	}
	// a reader that answers (0, nil) before every byte
	plans = append(plans, iosim.Plan{ZeroEach: true, K: t.Draw(n + 1)})
	// io.ErrUnexpectedEOF in the middle of the text (sticky)
	for i := 0; i < 2; i++ {
		plans = append(plans, iosim.Plan{Kind: []iosim.Kind{iosim.ErrAt, iosim.ErrWithByte}[t.Draw(2)], K: t.Draw(n + 1), Unexpected: true})
	}
	for i := 0; i < 3; i++ {
		plans = append(plans, iosim.Plan{Kind: iosim.ZeroReads, K: t.Draw(n + 1), M: 1 + t.Draw(3)})
	}
	return plans
}

func randomVars(t *tape.Tape, names []string) map[string]interface{} {
	var val func(d int) interface{}
	val = func(d int) interface{} {
		switch t.Draw(9) {
		case 0:
			return nil
		case 1:
			return t.Bool(1, 2)
		case 2:
			return float64(t.Draw(100)) - 50.5
		case 3:
			return t.Draw(1 << 20)
		case 4:
			return "s" + strconv.Itoa(t.Draw(5))
		case 5:
			if d < 2 {
				if t.Bool(1, 3) {
					// lists whose members are lists / objects
					return []interface{}{[]interface{}{val(2), val(2)}, map[string]interface{}{"a": val(2), "b": []interface{}{map[string]interface{}{}}}}
				}
				return []interface{}{val(d + 1), val(d + 1)}
			}
		case 6:
			if d < 2 {
				return map[string]interface{}{"minAge": val(d + 1), "names": val(d + 1), "x": val(d + 1)}
			}
		case 7:
			return int64(1) << uint(20+t.Draw(40))
		}
		return "k" + strconv.Itoa(t.Draw(4))
	}
	out := map[string]interface{}{}
	for _, n := range names {
		if n == "f" && t.Bool(1, 2) {
			// Filter-shaped: every field of the input type with a value of any shape
			// (reflection roots register a Go struct for Filter: Input.CoerceIn then
			// builds it field by field through reflect)
			f := map[string]interface{}{}
			for _, k := range []string{"minAge", "names", "size", "tag", "limit", "pair"} {
				if t.Bool(1, 2) {
					f[k] = val(1)
				}
			}
			if t.Bool(1, 3) {
				f["names"] = []interface{}{val(2), val(2), val(2)}
			}
			out[n] = f
			continue
		}
		if t.Bool(3, 4) {
			out[n] = val(0)
		}
	}
	if t.Bool(1, 4) {
		out["extra"] = val(0)
	}
	return out
}

var c03Adversarial = []string{
	// a GraphQL list behind a fixed-size Go array of a registered input struct
	"{ find(filter: {pair: [1, 2, 3, 4, 5]}) { name } tagged(filter: {pair: []}) }",
	"query($f: Filter) { find(filter: $f) { name } a: tagged(filter: {pair: [1, null, 3]}) }",
	// an inline fragment whose "on" is not followed by a type name
	"{...on{title}}",
	"{ ... on @skip(if: true) { title } }",
	"{ ... on }",
	"{ keepers { ... on",
	"{ keepers { ... on { name } ... on Keeper { name } } }",
	// a fragment that includes itself more than once: two to the power of the
	// depth limit steps unless the cycle is refused
	"{ ...F } fragment F on Query { title ...F ...F }",
	"{ ...A } fragment A on Query { ...B ...B } fragment B on Query { ...A title ...A }",
	"{ keepers { ...K } } fragment K on Keeper { name friend { ...K } buddy: friend { ...K ...K } }",
	// one GraphQL type in two Go shapes (value and pointer), method-backed fields
	"{ label { title } labelAlso { title } }",
	"{ labelAlso { title artist } label { title artist } }",
	"{ a: labelAlso { artist } b: label { artist title } c: labelRef { artist title } }",
	// surplus / null arguments on fields reached through an interface-typed field
	"{ animals { call(prefix: \"a\", suffix: \"b\", extra: null) } }",
	"query($x: ID) { animals { call(prefix: \"p\", extra: $x) name(extra: null) legs(a: null, b: null) } }",
	"{ animals { call(extra: null, more: null, prefix: null) } }",
	"{ animals { ... on Dog { call(suffix: \"s\", zz: null) owner { nick(n: null, zz: null) } } } }",
	"{ ...A } fragment A on Query { ...A }",
	"{ keepers { ...K } } fragment K on Keeper { friend { ...K } }",
	"{ ...A } fragment A on Query { ...B } fragment B on Query { ...A title }",
	"{ echo }",
	"{ echo(s: null, n: 1) }",
	"{ echo(s: 5, n: \"x\") }",
	"{ echo(n: 1) }",
	"{ echo(s: \"a\", n: 1, extra: 2) }",
	"{ keeper { name } }",
	"{ keeper(name: null) { name } }",
	"{ keeper(name: 7) { name } }",
	"{ keepers { motto } }",
	"{ keepers { motto(upper: \"yes\") } }",
	"query($v: Int!) { echo(s: \"a\", n: $v) }",
	"query($v: [Int]) { echo(s: \"a\", n: $v) }",
	"query($f: Filter) { find(filter: $f) { name } }",
	"query($f: Filter!) { find(filter: $f) { name } }",
	"query($f: Filter = {names: [null, \"a\"], minAge: null}) { find(filter: $f) { name } }",
	"query($f: [Filter]) { find(filter: $f) { name } }",
	"query($x: [String]) { find(filter: {names: $x}) { name } }",
	"query($x: Int) { find(filter: {minAge: $x, limit: $x, tag: $x}) { name } }",
	"{ find(filter: {names: [null, \"a\", null], limit: null}) { name } }",
	"{ find(filter: null) { name } }",
	"{ find { name } }",
	"{ find(filter: {minAge: {a: 1}}) { name } }",
	"{ find(filter: [1, 2]) { name } }",
	"{ find(filter: {names: {x: [[[1]]]}}) { name } }",
	"mutation { rename { name } }",
	"mutation { rename(old: null, new: null) { name } }",
	"{ __type { name } }",
	"{ __type(name: 5) { name } }",
	"{ __type(name: $x) { name } }",
	"{ __schema { types { fields { type { ofType { ofType { ofType { ofType { name } } } } } } } } }",
	"{ things { ... on Nope { x } } }",
	"{ things { ...Missing } }",
	"{ grid { x { y } } }",
	"{ title { x } }",
	"{ keepers }",
	"subscription { title }",
	"query A { title } query A { title }",
	"{ title @skip }",
	"{ title @skip(if: $nope) }",
	"{ title @include(if: 5) }",
	"{ a: }",
	"{ : title }",
	"query ($: Int) { title }",
	"{ keepers { friend { friend { friend { friend { friend { friend { friend { friend { name } } } } } } } } } }",
	"{ ...F } fragment F on Query { title ... { ...F } }",
	"{ echo(s: \"tag \U000E0067\U000E007F private \U000F0000 last \U0010FFFF\", n: 1) }",
	"query($v: String! = \"\U000E0067 \u0085 \uFFFE\") { echo(s: $v, n: 1) t: title }",
	"{ join(words: [\"a\", null]) }",
	"{ join(words: [[\"a\"], 1, {x: 2}]) j2: join(words: \"a\") j3: join }",
	"query($x: [String]) { join(words: $x) }",
	"query($x: [String!]!) { join(words: $x) }",
	"query($n: Int = $n) { echo(s: \"a\", n: $n) }",
	"query($a: String = $b, $b: String = $a) { echo(s: $a, n: 1) }",
	"query($a: Int = $b, $b: Int = $c, $c: Int = 3) { echo(s: \"x\", n: $a) }",
	"query($l: [[Int]] = [[1, 2], [3]]) { span(r: {parts: [{parts: [{}]}]}) nums }",
	"{ ghost g2: ghost }",
	"{ keepers { ghost } k2: keepers { ghost g3: ghost } }",
	"{ animals { name legs } }",
	"{ keepers { pets { name ... on Dog { barks owner { name } } } } }",
	"{ relay(n: 2) r2: relay(n: 1) }",
	"{ relay(n: 99999999999) }",
	"{ pick(i: 3) { code name ... on Keeper { code(pad: true) nick nick2: nick(n: null) } } }",
	"{ pick(i: -1) { __typename } pick2: pick { code } }",
	"query($i: Int!) { pick(i: $i) { code(pad: $i) } }",
	"{ ...F } fragment F on Query { title ... on Query { ...F } }",
	"{ ... { ... { ...F } } } fragment F on Query { ... { ... on Query { ...F } } }",
	"{ boss { ...K } } fragment K on Keeper { name friend { ... { ...K } } }",
	"{ things { ... on Keeper { ...K } } } fragment K on Keeper { friend { ...K2 } } fragment K2 on Keeper { ... on Keeper { ...K } }",
	"{ keeper(name: [\"k0\"]) { name } }",
	"{ keeper(name: {a: \"k0\"}) { name } }",
	"{ echo(s: [\"a\"], n: [1]) }",
	"{ echo(s: \"a\", n: [[1]]) }",
	"{ keepers { motto(upper: [true]) } }",
	"{ find(filter: {names: \"x\"}) { name } }",
	"{ find(filter: {minAge: [1]}) { name } }",
	"{ find(filter: {size: [BIG]}) { name } }",
	"{ find(filter: {names: [[\"x\"]]}) { name } }",
	"mutation { rename(old: [\"k0\"], new: {x: 1}) { name } }",
	"query($v: [[Int]]) { nums @skip(if: $v) }",
}

// layeredDirectives is a loop-free directive graph with sharing at every layer:
// @d0(a: Int @d1, b: Int @d1), @d1(a: Int @d2, b: Int @d2), ... (a loop check
// that forgets what it has visited takes two to the power of n steps)
func layeredDirectives(n int) string {
	var b strings.Builder
	for i := 0; i < n; i++ {
		fmt.Fprintf(&b, "directive @d%d(a: Int @d%d, b: Int @d%d) on ARGUMENT_DEFINITION\n", i, i+1, i+1)
	}
	fmt.Fprintf(&b, "directive @d%d on ARGUMENT_DEFINITION\ntype Query { f(x: Int @d0): Int }\n", n)
	return b.String()
}

var c03AdversarialSDL = []string{
	layeredDirectives(5),
	// descriptions with quotes in them (three in a row can only be written escaped)
	"\"\"\"\nsays \\\"\"\" and goes on\n\"\"\"\ntype Query {\n  \"\"\"a \\\"\"\" b \\\"\"\" c\"\"\"\n  f: Int\n}\n",
	"\"plain \\\"quoted\\\" \\\"\\\"\\\" text\"\ntype Query {\n  f(\"arg \\\"\\\"\\\" desc\" a: Int): Int\n}\nenum E {\n  \"\"\"v \\\"\"\" \"\"\"\n  A\n}\n",
	layeredDirectives(48),
	"union U = []", "union U = [[]]", "union U = | ", "union U", "union U =", "union U = !", "union U @d = Query",
	"type T { a: [] }", "type T { a: [!] }", "type T { a: ! }", "type T { a: [Int }", "type T { a: Int! ! }", "type T { a(b: []): Int }",
	"type T { a(b: Int = ): Int }", "type T { a(b: Int = [): Int }", "type T { a(b: Int = {x: ): Int }", "type T { a(: Int): Int }",
	"input I { a: [] = 1 }", "input I { a: Int = }", "input I { : Int }", "input I { a }",
	"directive @d(a: []) on OBJECT", "directive @ on OBJECT", "directive @d on", "directive @d(a: Int = @d) on OBJECT", "directive @d(a: Int @d) on ARGUMENT_DEFINITION",
	"type T implements [] { a: Int }", "type T implements & { a: Int }", "type T implements I & { a: Int }",
	"extend union U = []", "extend", "extend extend type T { a: Int }", "extend schema", "extend schema { }", "extend type { a: Int }",
	"enum E { }", "enum E { A @ }", "enum E { \"d\" }", "enum E @d(", "enum { A }",
	"schema { query: [] }", "schema { query: }", "schema { : Query }", "schema @d { query: Query }", "schema { query: Query } schema { query: Query }",
	"scalar", "scalar S @", "scalar S @d(a: [", "type T @ { a: Int }", "type T { a: Int @ }", "type T { a: Int @d( }", "type T { a: Int @d(x: }",
	"\"\"\"", "\"\"\" x", "\"x\" \"y\" type T { a: Int }", "type T { \"d\" }", "type T { \"\"\"d\"\"\" a: Int \"e\" }",
	"type Query { a: Query } extend type Query { a: Int }", "interface I { a: I } type T implements I { a: T } type T2 implements I { a: [T] }",
	"type T { a: Int }\ntype T { a: Int }", "type Int { a: Int }", "scalar Int", "enum __E { A }", "input I { a: I! }",
	// strings with non-printable runes outside the basic plane (tags, private use, the last code point)
	"\"about \U000E0067\U000E007F \U000F0000 \U0010FFFF\"\ntype T { a(x: String = \"d \U000E0001 \u0085 \uFFFE\"): String @deprecated(reason: \"r \U000E007F\") }",
	"\"\"\"\nblock \U000E0067 \U0010FFFF\n\"\"\"\nenum E { \"v \U000F0000\" A }",
	// block descriptions whose lines are indented unevenly (white-space-only lines shorter than the common indentation)
	"\"\"\"\n    first\n  \n    second\n\t\n    third\n\"\"\"\ntype T { a: Int }",
	"type T {\n  \"\"\"\n      deep\n \n\n   \n      text\n  \"\"\"\n  a: Int\n}",
	"\"\"\"\n\t\ttabs\n\t\n \t \n\t\tmore\"\"\" enum E { A }",
	"\"\"\"   \n   \n\"\"\" scalar S",
	// list values whose members are lists or input objects, as directive arguments and defaults
	"directive @d(m: [[Int]] = [[1, 2], [3]], o: [In] = [{a: 1}, {}]) on OBJECT\ninput In { a: Int = 2 }\ntype T @d(m: [[4], []], o: [{a: 3}]) { f: Int }",
	// directive loops that are entered from outside the loop, longer loops, a directive used twice
	"directive @outer(x: Int @inner) on FIELD_DEFINITION\ndirective @inner(y: Int @inner) on ARGUMENT_DEFINITION",
	"directive @a(x: Int @b) on ARGUMENT_DEFINITION\ndirective @b(y: Int @c) on ARGUMENT_DEFINITION\ndirective @c(z: Int @b) on ARGUMENT_DEFINITION",
	"directive @a(x: Int @c, y: Int @c) on OBJECT\ndirective @c on ARGUMENT_DEFINITION\ntype T @a { f: Int }",
	"directive @a(x: Int @b) on OBJECT\ndirective @b(y: Int @a) on ARGUMENT_DEFINITION\ntype T @a(x: 1) { f(g: Int @b(y: 2)): Int }",
	// directive arguments that are input objects / lists (literals and defaults)
	"directive @d(in: In) on OBJECT\ninput In { a: Int }\ntype T @d(in: {a: 1}) { f: Int }",
	"directive @d(in: In = {a: 1}) on OBJECT\ninput In { a: Int }\ntype T @d { f: Int }",
	"directive @d(l: [Int]) on OBJECT | FIELD_DEFINITION\ntype T @d(l: [1, 2]) { f: Int @d(l: []) }",
	"directive @d(in: In) on ENUM_VALUE | ENUM\ninput In { a: [In] }\nenum E @d(in: {a: [{a: []}]}) { A @d(in: {}) }",
	"directive @d(m: [[String]] = [[\"a\"], []]) on SCALAR\nscalar S @d(m: [[\"b\"]])",
}

// c03Pairs are (schema, request) pairs served by the schema-driven resolver.
var c03Pairs = [][2]string{
	{"type Query { f(in: In): Int }\ninput In { name: String not: In = {name: \"nobody\"} }", "{ f(in: {name: \"x\"}) }"},
	{"type Query { f(in: In): Int }\ninput In { name: String not: In = {name: \"nobody\"} }", "query($v: In) { f(in: $v) }"},
	{"type Query { f(in: In = {all: [{all: []}]}): Int }\ninput In { all: [In] = [{}] }", "{ f a: f(in: {}) b: f(in: {all: [{}, {all: null}]}) }"},
	{"type Query { f(in: A): Int }\ninput A { b: B = {} }\ninput B { a: A = {} }", "{ f(in: {}) g: f(in: {b: {a: {}}}) }"},
	{"type Query { f(e: E = B, l: [E] = [A, B]): E }\nenum E { A B }", "{ f a: f(e: C) b: f(l: [A, C]) c: f(e: \"A\") }"},
	{"type Query { f(x: Int = 3 @d): Int @d }\ndirective @d(a: [Int] = [1]) on FIELD_DEFINITION | ARGUMENT_DEFINITION", "{ f f2: f(x: null) }"},
	{"type Query { u: U i: I }\nunion U = A | B\ninterface I { x: Int }\ntype A implements I { x: Int }\ntype B implements I { x: Int y: U }", "{ u { ... on A { x } ... on B { y { ... on B { y { __typename } } } } } i { x ... on B { y { __typename } } } }"},
	{"type Query { f(t: Time, i: Int64, fl: Float64): Time }", "{ f(t: \"not a time\") a: f(i: 99999999999999999999) b: f(fl: 1e999) c: f(t: 5) }"},
	{"type Query { l: [[[Int!]!]!]! }", "{ l }"},
	{"type Query { f(m: [[Int]], o: [In], v: [[In!]]): Int }\ninput In { a: Int = 2 b: [In] }", "query($v: [[Int]], $x: [In], $f: [[In!]]) { f(m: $v, o: $x, v: $f) a: f(m: [[1], [2, 3]], o: [{a: 1}, {b: [{}]}]) }"},
	{"type Query { f(m: [[Int]], o: [In]): Int }\ninput In { a: Int = 2 b: [In] }", "query($v: [[Int]] = [[1], []], $x: [In] = [{b: [{a: 5}]}]) { f(m: $v, o: $x) }"},
	{"schema { query: Q mutation: M subscription: S }\ntype Q { a: Int }\ntype M { b(x: Int!): Int }\ntype S { c: Int }", "mutation { b } "},
	{"schema { query: Q mutation: M subscription: S }\ntype Q { a: Int }\ntype M { b(x: Int!): Int }\ntype S { c: Int }", "subscription { c } "},
	// schemas that lack an operation type, meta-fields asked for in every kind of operation
	{"type Mutation { bump: Int }", "mutation { bump __schema { types { name } } }"},
	{"type Mutation { bump: Int }", "{ __schema { queryType { name } mutationType { name } subscriptionType { name } } }"},
	{"type Mutation { bump: Int }", "mutation { b: bump ... { __schema { queryType { name fields { name } } } } __typename }"},
	{"schema { mutation: Writer }\ntype Writer { bump: Int }", "mutation { __type(name: \"Int\") { name } b: bump ... { __schema { queryType { name } } } }"},
	{"type Subscription { s: Int }", "subscription { s __typename __schema { queryType { name } } }"},
	{"type Subscription { s: Int }", "mutation { __typename }"},
	{"schema { query: Lookup }\ntype Lookup { a: Int }\ntype Query { b: Int }", "{ a __schema { queryType { name } } __type(name: \"Lookup\") { fields { name } } }"},
	{"schema { query: Lookup }\ntype Lookup { a: Int }", "mutation { a } subscription S { a }"},
	{"type Query { a: Int }\nextend schema { mutation: Query }", "mutation { a __schema { mutationType { name } } __type(name: \"Query\") { name } }"},
}

// warpLiterals replaces one literal argument value of a request by a value of
// another shape (list-wrapped, object-wrapped, null, other scalar kind,
// undefined variable, enum symbol).
func warpLiterals(t *tape.Tape, doc string) string {
	type span struct{ lo, hi int }
	var spans []span
	for i := 0; i < len(doc); i++ {
		if doc[i] != ':' || i+2 >= len(doc) || doc[i+1] != ' ' {
			continue
		}
		j := i + 2
		switch {
		case doc[j] == '"':
			k := j + 1
			for k < len(doc) && doc[k] != '"' {
				k++
			}
			if k < len(doc) {
				spans = append(spans, span{j, k + 1})
			}
		case doc[j] >= '0' && doc[j] <= '9':
			k := j
			for k < len(doc) && doc[k] >= '0' && doc[k] <= '9' {
				k++
			}
			spans = append(spans, span{j, k})
		case strings.HasPrefix(doc[j:], "true"):
			spans = append(spans, span{j, j + 4})
		case strings.HasPrefix(doc[j:], "false"):
			spans = append(spans, span{j, j + 5})
		}
	}
	if len(spans) == 0 {
		return doc
	}
	sp := spans[t.Draw(len(spans))]
	old := doc[sp.lo:sp.hi]
	repl := []string{"[" + old + "]", "[[" + old + "]]", "{a: " + old + "}", "null", "$undefinedVar", "SYM", "1.5", "\"str\"", "7", "true", "[]", "{}"}[t.Draw(12)]
	return doc[:sp.lo] + repl + doc[sp.hi:]
}

func (c C03) Run(t *tape.Tape, opt core.RunOpt) (res core.Result) {
	if !c03StackSet {
		// unbounded recursion should die in milliseconds, not after eating 1 GB
		debug.SetMaxStack(64 << 20)
		c03StackSet = true
	}
	thorough := opt.Tier == "thorough"
	ctx := &c03Ctx{res: &res}
	sample := map[string]interface{}{}
	defer func() {
		res.Evaluations = ctx.calls
		if res.Evaluations == 0 {
			res.Evaluations = 1
		}
		if opt.WantSample {
			res.Sample = sample
		}
	}()
	countFired := func(r *iosim.Reader) {
		if r.Fired {
			res.Count("fault_reader_"+r.Plan.Kind.String(), 1)
			res.NonTrivial = true
		}
		if r.CallsAfterErr > 0 {
			res.Count("probe_read_called_again_after_sticky_error", 1)
		}
	}
	family := t.Draw(7)
	switch family {
	case 0: // SDL through a faulty reader
		g := &workload.Gen{T: t, St: &workload.SymTab{ByName: map[string]*workload.TInfo{}}}
		var b strings.Builder
		for i := 0; i < 1+t.Draw(4); i++ {
			b.WriteString(g.Valid().Text)
		}
		if t.Bool(1, 4) {
			b.WriteString(g.Poison().Text)
		}
		doc := b.String()
		mut := "none"
		if t.Bool(1, 3) {
			doc, mut = mutateDoc(t, doc)
		}
		sample["family"], sample["document"], sample["mutation"] = "ParseReader(SDL) with reader faults", doc, mut
		res.Sig = core.Hash64("sdl", doc)
		for _, p := range readerPlans(t, len(doc), thorough) {
			r := iosim.NewReader([]byte(doc), p)
			root := ggql.NewRoot(nil)
			var err error
			ctx.guard("ParseReader", "with "+p.String(), doc, func() { err = root.ParseReader(r) })
			countFired(r)
			if err == nil && r.Fired && (p.Kind == iosim.ErrAt || p.Kind == iosim.ErrWithByte) {
				res.Count("probe_sticky_reader_error_swallowed", 1)
			}
			res.SubSigs = append(res.SubSigs, core.Hash64("sdl", doc, p.String()))
		}
	case 1, 2: // executable through a faulty reader: parse and resolve
		strat := []workload.Strategy{workload.StratReflect, workload.StratInterface, workload.StratAny}[t.Draw(3)]
		q := workload.GenZoo(t)
		req := workload.GenRequest(t, workload.ReqOpt{Strat: strat, MultiOp: true, Introspection: true, VarInLiteral: strat != workload.StratReflect, ShuffleArgs: true, UnknownArgs: strat != workload.StratReflect})
		doc := req.Src
		mut := "none"
		if t.Bool(1, 3) && strat != workload.StratReflect {
			doc, mut = mutateDoc(t, doc)
		}
		sample["family"], sample["document"], sample["mutation"], sample["strategy"] = "ParseExecutableReader / ResolveReader with reader faults", doc, mut, strat.String()
		res.Sig = core.Hash64("exe", strat.String(), doc)
		z, err := workload.NewZoo(q, strat)
		if err != nil {
			res.Fatal = err.Error()
			return
		}
		for _, p := range readerPlans(t, len(doc), thorough) {
			r := iosim.NewReader([]byte(doc), p)
			if family == 1 {
				ctx.guard("ParseExecutableReader", "with "+p.String(), doc, func() { _, _ = z.Root.ParseExecutableReader(r) })
			} else {
				var resp map[string]interface{}
				ctx.guard("ResolveReader("+strat.String()+")", "with "+p.String(), doc, func() { resp = z.Root.ResolveReader(r, req.Op, req.Vars) })
				if resp != nil {
					ctx.guard("WriteJSONValue(response)", "", doc, func() {
						var w iosim.Writer
						_ = ggql.WriteJSONValue(&w, resp, t.Draw(3)-1)
					})
				}
			}
			countFired(r)
			res.SubSigs = append(res.SubSigs, core.Hash64("exe", doc, p.String()))
		}
	case 3: // values
		vals := []string{"\"tag \U000E0067\U000E007F private \U000F0000 last \U0010FFFF flag \U0001F3F4\U000E0067\U000E0062 nonchar \uFFFE\"", "{k: [\"\U000E0001\", \"\u0085\u2028\u00ad\"]}",
			`{a: 1, b: [true, null, "xA\n"], c: {d: -1.5e3, e: $v, f: SYM}}`, `[1, [2, [3, [4]]]]`, `"""block
  string"""`, `{"json": "style", "k": [1.0, 2]}`, `-0`, `1e400`, `"\ud800"`, `{a: {a: {a: {a: {a: 1}}}}}`}
		doc := vals[t.Draw(len(vals))]
		mut := "none"
		if t.Bool(1, 2) {
			doc, mut = mutateDoc(t, doc)
		}
		sample["family"], sample["document"], sample["mutation"] = "ParseValue with reader faults", doc, mut
		res.Sig = core.Hash64("val", doc)
		for _, p := range readerPlans(t, len(doc), true) {
			r := iosim.NewReader([]byte(doc), p)
			var v interface{}
			var err error
			ctx.guard("ParseValue", "with "+p.String(), doc, func() { v, err = ggql.ParseValue(r) })
			countFired(r)
			if err == nil {
				for _, indent := range []int{-1, 0, 2} {
					ctx.guard("WriteSDLValue", "", doc, func() { var w iosim.Writer; _ = ggql.WriteSDLValue(&w, v, indent) })
					ctx.guard("WriteJSONValue", "", doc, func() { var w iosim.Writer; _ = ggql.WriteJSONValue(&w, v, indent) })
				}
			}
			res.SubSigs = append(res.SubSigs, core.Hash64("val", doc, p.String()))
		}
	case 4: // ParseFS
		g := &workload.Gen{T: t, St: &workload.SymTab{ByName: map[string]*workload.TInfo{}}}
		nfiles := 1 + t.Draw(3)
		texts := make([]string, nfiles)
		for i := range texts {
			for j := 0; j < 1+t.Draw(2); j++ {
				texts[i] += g.Valid().Text
			}
		}
		sample["family"], sample["files"] = "ParseFS with fs faults", texts
		res.Sig = core.Hash64("fs", strings.Join(texts, "\x00"))
		names := []string{"a.graphql", "b.graphql", "c.graphql"}[:nfiles]
		var faults []map[string]iosim.FileFault
		for _, n := range names {
			faults = append(faults, map[string]iosim.FileFault{n: {OpenErr: true}}, map[string]iosim.FileFault{n: {CloseErr: true}})
		}
		for i, n := range names {
			for _, p := range readerPlans(t, len(texts[i]), thorough && len(texts[i]) < 400) {
				faults = append(faults, map[string]iosim.FileFault{n: {Read: p, Chunk: 1 + t.Draw(32)}})
			}
		}
		// two (or three) files at fault in one call, in any mix of open / read / close errors
		if nfiles >= 2 {
			for k := 0; k < 6; k++ {
				ff := map[string]iosim.FileFault{}
				for _, n := range names {
					switch t.Draw(4) {
					case 0:
						ff[n] = iosim.FileFault{OpenErr: true}
					case 1:
						ff[n] = iosim.FileFault{CloseErr: true}
					case 2:
						ff[n] = iosim.FileFault{Read: iosim.Plan{Kind: iosim.ErrAt, K: t.Draw(8)}, Chunk: 1 + t.Draw(16)}
					}
				}
				if len(ff) >= 2 {
					faults = append(faults, ff)
				}
			}
		}
		for fi, ff := range faults {
			fsys := iosim.NewFS()
			for i, n := range names {
				fsys.Files[n] = []byte(texts[i])
			}
			fsys.Faults = ff
			root := ggql.NewRoot(nil)
			pats := []string{"*.graphql"}
			if fi%7 == 3 {
				pats = []string{"[x"}
			}
			ctx.guard("ParseFS", fmt.Sprintf("with %v", ff), strings.Join(texts, "\n---\n"), func() { _ = root.ParseFS(fsys, pats...) })
			for k, v := range fsys.Fired {
				res.Count("fault_"+k, v)
				res.NonTrivial = true
			}
			res.SubSigs = append(res.SubSigs, core.Hash64("fs", strings.Join(texts, "\x00"), fmt.Sprint(ff)))
		}
	case 5: // printers with a failing writer
		root := workload.NewSynthRoot()
		g := &workload.Gen{T: t, St: &workload.SymTab{ByName: map[string]*workload.TInfo{}}}
		var b strings.Builder
		for i := 0; i < 2+t.Draw(5); i++ {
			b.WriteString(g.Valid().Text)
		}
		doc := b.String()
		if err := root.ParseString(doc); err != nil {
			res.Count("printer_schema_rejected", 1)
			res.Sig = core.Hash64("printer-rejected", doc)
			return
		}
		sample["family"], sample["document"] = "Type.Write / value writers with a failing io.Writer", doc
		res.Sig = core.Hash64("printer", doc)
		desc := t.Bool(1, 2)
		for _, ty := range root.Types() {
			var probe iosim.Writer
			ctx.guard("Type.Write", ty.Name(), doc, func() { _ = ty.Write(&probe, desc) })
			for k := 1; k <= probe.Calls; k++ {
				for _, short := range []bool{false, true} {
					w := &iosim.Writer{FailAt: k, Short: short, Budget: probe.Calls*4 + 64}
					var err error
					ctx.guard("Type.Write", fmt.Sprintf("%s failing at write %d short=%v", ty.Name(), k, short), doc, func() { err = ty.Write(w, desc) })
					if w.Fired {
						res.Count("fault_writer_"+map[bool]string{false: "error", true: "short_write"}[short], 1)
						res.NonTrivial = true
					}
					if !short && err == nil && w.Fired {
						res.Count("probe_writer_error_swallowed", 1)
					}
					res.SubSigs = append(res.SubSigs, core.Hash64("printer", ty.Name(), strconv.Itoa(k), strconv.FormatBool(short)))
				}
			}
		}
		// single-key maps only: with several keys the writer's call count depends
		// on Go's map iteration order (ggql.Sort is off by default)
		val := map[string]interface{}{"a": []interface{}{1, "two", 3.5, nil, true, ggql.Symbol("SYM"), ggql.Var("v"),
			map[string]interface{}{"c": "x\n\"y\""}, []interface{}{}, map[string]interface{}{"d": []interface{}{map[string]interface{}{}}}}}
		for _, indent := range []int{-1, 0, 2} {
			for _, json := range []bool{false, true} {
				var probe iosim.Writer
				wr := func(w *iosim.Writer) error {
					if json {
						return ggql.WriteJSONValue(w, val, indent)
					}
					return ggql.WriteSDLValue(w, val, indent)
				}
				ctx.guard("WriteValue", "", "", func() { _ = wr(&probe) })
				for k := 1; k <= probe.Calls; k++ {
					w := &iosim.Writer{FailAt: k, Budget: probe.Calls*4 + 64}
					ctx.guard("WriteValue", fmt.Sprintf("json=%v indent=%d failing at write %d", json, indent, k), "", func() { _ = wr(w) })
					if w.Fired {
						res.Count("fault_writer_error", 1)
					}
				}
			}
		}
		// deeply nested values (a response to a deeply nested request, a big
		// literal): depth times indent grows past any fixed pad
		for _, depth := range []int{10, 20, 33, 40, 70, 130} {
			var dv interface{} = 1
			for i := 0; i < depth; i++ {
				if (i+depth)%3 == 0 {
					dv = map[string]interface{}{"k": dv}
				} else {
					dv = []interface{}{dv}
				}
			}
			for _, indent := range []int{1, 2, 4, 8} {
				ctx.guard("WriteJSONValue", fmt.Sprintf("value nested %d deep, indent %d", depth, indent), "", func() { var w iosim.Writer; _ = ggql.WriteJSONValue(&w, dv, indent) })
				ctx.guard("WriteSDLValue", fmt.Sprintf("value nested %d deep, indent %d", depth, indent), "", func() { var w iosim.Writer; _ = ggql.WriteSDLValue(&w, dv, indent) })
			}
		}
	case 6: // sampled input half: adversarial requests, no faults
		strat := []workload.Strategy{workload.StratReflect, workload.StratInterface, workload.StratAny, workload.StratMixed}[t.Draw(4)]
		q := workload.GenZoo(t)
		// an application that forgot to register the implementers of an interface
		q.NoRegister = t.Bool(1, 3)
		if strat == workload.StratMixed {
			workload.DrawMixed(t, q)
		}
		z, err := workload.NewZoo(q, strat)
		if err != nil {
			res.Fatal = err.Error()
			return
		}
		var docs []string
		for i := 0; i < 6; i++ {
			d := c03Adversarial[t.Draw(len(c03Adversarial))]
			if t.Bool(1, 3) {
				d, _ = mutateDoc(t, d)
			}
			docs = append(docs, d)
		}
		for i := 0; i < 4; i++ {
			// generated valid requests with one argument value of the wrong shape
			r := workload.GenRequest(t, workload.ReqOpt{Strat: strat, MultiOp: false, VarInLiteral: strat != workload.StratReflect, ShuffleArgs: true, MaxDepth: 3,
				Ghost: true, Relay: true, Pick: true, Nick: true, Span: true, Blob: true, Call: true})
			if t.Bool(1, 3) {
				docs = append(docs, r.Src) // as generated (fields without a Go counterpart selected repeatedly, nested requests)
			} else {
				docs = append(docs, warpLiterals(t, r.Src))
			}
		}
		sample["family"], sample["documents"], sample["strategy"] = "adversarial requests (sampled input half)", docs, strat.String()
		res.Sig = core.Hash64("adv", strat.String(), strings.Join(docs, "\x00"))
		res.NonTrivial = true
		for _, d := range docs {
			vars := randomVars(t, []string{"v", "f", "x", "nope"})
			ctx.guard("ResolveString("+strat.String()+")", "vars "+workload.Canon(vars), d, func() {
				resp := z.Root.ResolveString(d, "", vars)
				var w iosim.Writer
				_ = ggql.WriteJSONValue(&w, resp, 0)
			})
			// what an application does with a parsed request before resolving it
			ctx.guard("Executable.SetContextRecursive/String", "", d, func() {
				if exe, err := z.Root.ParseExecutableString(d); err == nil && exe != nil {
					exe.SetContextRecursive(1)
					_ = exe.String()
				}
			})
			res.SubSigs = append(res.SubSigs, core.Hash64("adv", strat.String(), d))
		}
		for i := 0; i < 8; i++ {
			d := c03AdversarialSDL[t.Draw(len(c03AdversarialSDL))]
			if t.Bool(1, 3) {
				d, _ = mutateDoc(t, d)
			}
			if t.Bool(1, 3) {
				d = "type Query { a: Int }\n" + d
			}
			ctx.guard("ParseString(SDL)", "", d, func() {
				r := workload.NewSynthRoot()
				if err := r.ParseString(d); err == nil {
					_ = r.SDL(true, true)
					_ = r.ResolveString("{ __schema { types { name kind fields { name type { name } } possibleTypes { name } inputFields { name defaultValue } enumValues { name } } directives { name args { name defaultValue } } } }", "", nil)
				}
			})
			res.SubSigs = append(res.SubSigs, core.Hash64("advsdl", d))
		}
		// schema + request pairs: the crash needs both
		for i := 0; i < 3; i++ {
			pr := c03Pairs[t.Draw(len(c03Pairs))]
			vars := randomVars(t, []string{"v", "f", "x"})
			ctx.guard("ParseString+ResolveString(pair)", "vars "+workload.Canon(vars), pr[0]+"\n---\n"+pr[1], func() {
				r := workload.NewSynthRoot()
				if err := r.ParseString(pr[0]); err == nil {
					_ = r.ResolveString(pr[1], "", vars)
					_ = r.SDL(true, true)
				}
			})
			res.SubSigs = append(res.SubSigs, core.Hash64("pair", pr[0], pr[1]))
		}
		// load histories: whatever a refused load leaves behind must not crash the
		// calls that follow (printing, introspection, the next load)
		{
			hr := workload.NewSynthRoot()
			hg := &workload.Gen{T: t}
			var hist []string
			for step := 0; step < 2+t.Draw(3); step++ {
				ok := false
				ctx.guard("load history: Root.Types() walked through the public API", "", strings.Join(hist, "\n=== next load ===\n"), func() {
					hg.St = workload.ReadSymTab(hr, hg.N)
					ok = true
				})
				if !ok {
					break
				}
				hg.ResetDoc()
				var doc strings.Builder
				for k := 0; k < 1+t.Draw(3); k++ {
					doc.WriteString(hg.Valid().Text)
				}
				if step > 0 && t.Bool(1, 2) {
					doc.WriteString(hg.Poison().Text)
					if t.Bool(1, 2) {
						doc.WriteString(hg.Valid().Text)
					}
				}
				hist = append(hist, doc.String())
				ctx.guard("load history: ParseString, SDL, introspection", "", strings.Join(hist, "\n=== next load ===\n"), func() {
					_ = hr.ParseString(doc.String())
					_ = hr.SDL(true, true)
					_ = hr.ResolveString(workload.IntrospectionQuery, "", nil)
					for _, ty := range hr.Types() {
						_ = ty.SDL(true)
					}
				})
			}
			res.SubSigs = append(res.SubSigs, core.Hash64("history", strings.Join(hist, "\x00")))
		}
		// entry points on a root that has nothing loaded / only AddTypes
		ctx.guard("ResolveString(empty root)", "", "{ a }", func() { _ = ggql.NewRoot(nil).ResolveString("{ a }", "", nil) })
		ctx.guard("ResolveString(root built with AddTypes only)", "", "{ a }", func() {
			r := ggql.NewRoot(&c03Schema{Query: &c03Query{A: 3}})
			qo := &ggql.Object{Base: ggql.Base{N: "Query"}}
			_ = qo.AddField(&ggql.FieldDef{Base: ggql.Base{N: "a"}, Type: &ggql.Ref{Base: ggql.Base{N: "Int"}}})
			_ = r.AddTypes(qo)
			_ = r.ResolveString("{ a }", "", nil)
		})
	}
	return
}
