package checks

import (
	"fmt"
	"strconv"
	"strings"

	"verif/sim/core"
	"verif/sim/tape"
	"verif/workload"
)

// C19: subscription registry, sequential histories against a reference model
// (ordered list of live subscriptions), with delivery faults injected by the
// simulated subscribers.
type C19 struct{}

func init() { register(C19{}) }

func (C19) ID() string      { return "C19" }
func (C19) Level() string   { return "exploration" }
func (C19) NeedsRace() bool { return false }
func (C19) Rule() string {
	return "a case is one history of 5-40 operations over {subscribe(selection, topic or wildcard, failure plan), publish(topic, event) directly or from a mutation resolver, unsubscribe(topic)} on one root, " +
		"checked operation by operation against the ordered-registry model; non-trivial = the history contains a publish that matched >= 2 subscribers or a failed delivery or an unsubscribe that removed a strict subset; " +
		"distinct = distinct hashes of the operation sequence with its outcomes"
}
func (C19) Assumptions() []string {
	return []string{
		"Match is exact-or-wildcard on the topic; subscribers are harness stubs whose k-th delivery fails once (transient) or from then on (dropped connection)",
		"the expected message is computed by the harness from the subscriber's selection and the event (independent of ggql)",
	}
}
func (C19) Components() map[string]string {
	return map[string]string{
		"pkg/ggql (ResolveExecutable subscription path, Root.subscribe/AddEvent/Unsubscribe, resolver)": "real",
		"subscribers / events / schema-level resolvers":                                                 "stub (harness)",
		"reference model": "ordered list of live subscriptions (harness)",
	}
}

type seqEv struct {
	Kind   string
	Detail string
}

type seqEnv struct {
	log []seqEv
}

func (e *seqEnv) Event(kind, detail string) uint64 {
	e.log = append(e.log, seqEv{kind, detail})
	return uint64(len(e.log))
}

// CrashIsViolation implements core.CrashChecker: a call that never returns
// because the library waits for a lock it leaked itself counts against the
// property (what follows the call cannot be as the property says).
func (C19) CrashIsViolation() string { return "C19" }

// RunTimeout implements core.CrashChecker (a run takes milliseconds).
func (C19) RunTimeout() float64 { return 60 }

// HangNeedsLibraryFrame implements core.HangAttributor.
func (C19) HangNeedsLibraryFrame() bool { return true }

// LibraryRunsOnOneGoroutine implements core.SequentialLibrary.
func (C19) LibraryRunsOnOneGoroutine() bool { return true }

func (c C19) Run(t *tape.Tape, opt core.RunOpt) (res core.Result) {
	env := &seqEnv{}
	sdl := workload.SubSDL
	if t.Bool(1, 4) {
		// the subscription type is named through a schema block (and a type
		// called Subscription that is not the subscription type exists)
		sdl = workload.SubSDLNamed
		res.Count("probe_subscription_type_named_by_schema_block", 1)
	}
	w, err := workload.NewSubWorldSDL(env, sdl)
	if err != nil {
		res.Fatal = "cannot load the subscription schema: " + err.Error()
		return
	}
	w.ResolverEvents = t.Bool(1, 2)
	w.BadEvents = t.Bool(1, 2)
	if t.Bool(1, 4) {
		// a union-typed subscription field: the events are of two Go types
		w.UnionEvents = true
		w.ResolverEvents = false
	} else if t.Bool(1, 4) {
		// a list-typed subscription field: every event is a batch
		w.ListEvents = true
	} else if t.Bool(1, 4) {
		// a leaf-typed subscription field (Time / enum / list of Int)
		w.Leaf = 1 + t.Draw(3)
		res.Count("probe_leaf_typed_subscription_field", 1)
	}
	// the resolver keeps the Subscription object of a subscriber and hands it
	// back when that subscriber subscribes again after it was removed
	w.ReuseSub = t.Bool(1, 4)
	w.NilEvents = t.Bool(1, 3)
	if t.Bool(1, 4) {
		w.ResolverReenters = 1 + t.Draw(2)
	}
	var ever []int
	nearVars := map[string]interface{}{} // the caller's one variables map for selections that take $r
	topics := []string{"a", "b", "c"}
	topic := func() string {
		if t.Bool(1, 6) {
			return ""
		}
		return topics[t.Draw(len(topics))]
	}
	var live []int // model: live subscriptions in registration order
	sends := map[int]int{}
	cleaned := map[int]int{}
	removed := map[int]int{} // registry entries removed so far, per subscriber object
	nextSid, nextEv := 1, 1
	nops := 5 + t.Draw(36)
	var hist []string
	multi, failedDelivery, subsetUnsub := false, false, false
	res.Evaluations = 1
	defer func() {
		res.Sig = core.Hash64(strings.Join(hist, "\n"))
		res.NonTrivial = multi || failedDelivery || subsetUnsub
		res.Steps = len(hist)
		if opt.WantSample {
			res.Sample = map[string]interface{}{"history": hist}
		}
	}()
	fail := func(class, f string, a ...interface{}) {
		msg := fmt.Sprintf(f, a...)
		hist = append(hist, "VIOLATION: "+msg)
		res.Violate("C19", class, msg+"\nhistory:\n"+strings.Join(hist, "\n"), nil)
	}
	if t.Bool(1, 8) {
		// a crowd to begin with: seventeen subscribers and more live at once, most
		// of them on one topic (a later unsubscribe of that topic is a mass removal)
		n := 17 + t.Draw(8)
		for i := 0; i < n; i++ {
			tp := "a"
			if i%5 == 4 {
				tp = topic()
			}
			sb := &workload.SimSub{ID: nextSid, Topic: tp, SelIndex: t.Draw(len(workload.SubSelections))}
			nextSid++
			w.AddSub(sb)
			if out := w.Subscribe(sb.ID); out != `{"data":null}` {
				fail("subscribe_failed", "subscription request of subscriber %d returned %s", sb.ID, out)
				return
			}
			live = append(live, sb.ID)
			ever = append(ever, sb.ID)
		}
		hist = append(hist, fmt.Sprintf("%d subscribers registered to begin with (ids 1..%d, most on topic \"a\")", n, n))
		res.Count("probe_seventeen_or_more_live_subscribers", 1)
	}
	for i := 0; i < nops; i++ {
		env.log = env.log[:0]
		switch k := t.Draw(10); {
		case k < 4 && w.ReuseSub && len(ever) > len(live) && t.Bool(1, 3): // a removed subscriber subscribes again
			var gone []int
			for _, sid := range ever {
				isLive := false
				for _, l := range live {
					if l == sid {
						isLive = true
					}
				}
				if !isLive {
					gone = append(gone, sid)
				}
			}
			if len(gone) == 0 {
				break
			}
			sid := gone[t.Draw(len(gone))]
			out := w.Subscribe(sid)
			hist = append(hist, fmt.Sprintf("subscribe again after removal (sub %d; the resolver hands back the Subscription object it kept) -> %s", sid, out))
			if out != `{"data":null}` {
				fail("subscribe_failed", "subscription request of subscriber %d returned %s", sid, out)
				return
			}
			live = append(live, sid)
			res.Count("probe_removed_subscriber_subscribes_again_with_kept_object", 1)
		case k < 4 && len(live) > 0 && !w.ReuseSub && t.Bool(1, 6): // the same subscriber object subscribes once more
			sid := live[t.Draw(len(live))]
			out := w.Subscribe(sid)
			hist = append(hist, fmt.Sprintf("subscribe again (sub %d: one subscriber object behind another registry entry) -> %s", sid, out))
			if out != `{"data":null}` {
				fail("subscribe_failed", "subscription request of subscriber %d returned %s", sid, out)
				return
			}
			live = append(live, sid)
			res.Count("probe_one_subscriber_behind_two_entries", 1)
		case k < 4: // subscribe
			sb := &workload.SimSub{ID: nextSid, Topic: topic(), SelIndex: t.Draw(len(workload.SubSelections)), Alias: t.Bool(1, 3), Named: t.Bool(1, 3), UseVar: t.Bool(1, 2)}
			if t.Bool(1, 4) {
				sb.Wrap = 1 + t.Draw(3)
			}
			sb.Companion = t.Bool(1, 8)
			nextSid++
			if t.Bool(1, 3) {
				sb.FailFrom = 1 + t.Draw(3)
				sb.Dropped = t.Bool(1, 2)
				sb.TimeoutErr = t.Bool(1, 3)
				sb.EmptyGroupErr = !sb.TimeoutErr && t.Bool(1, 4)
			}
			sb.ByValue = t.Bool(1, 4)
			if t.Bool(1, 5) {
				sb.Near, sb.NearVars = true, nearVars
			}
			sb.Marks = t.Bool(1, 3)
			w.AddSub(sb)
			out := w.Subscribe(sb.ID)
			d := fmt.Sprintf("subscribe(sub %d topic=%q sel=%s failFrom=%d dropped=%v) -> %s", sb.ID, sb.Topic, workload.SubSelections[sb.SelIndex].Sel, sb.FailFrom, sb.Dropped, out)
			hist = append(hist, d)
			if sb.Companion {
				// the request has a second root field whose resolver refuses: it
				// fails as a whole and registers nobody
				if !strings.Contains(out, `"errors"`) {
					fail("subscribe_failed", "subscription request with a refused second field returned %s (no error)", out)
					return
				}
				res.Count("probe_subscription_request_with_refused_field", 1)
				break
			}
			if out != `{"data":null}` {
				fail("subscribe_failed", "subscription request of subscriber %d returned %s", sb.ID, out)
				return
			}
			for _, e := range env.log {
				// (Probe: the harness's subscription resolver used the registry
				// itself with an id nobody listens to)
				if e.Kind != "Probe" {
					fail("callout_during_subscribe", "subscribing called back into subscribers: %v", env.log)
					return
				}
			}
			live = append(live, sb.ID)
			ever = append(ever, sb.ID)
		case k < 8: // publish
			tp := topic()
			n := nextEv
			nextEv++
			viaMut := t.Bool(1, 4)
			var cnt int
			var perr bool
			var out string
			if viaMut {
				out = w.PublishViaMutation(tp, n)
			} else {
				var e error
				cnt, e = w.Publish(tp, n)
				perr = e != nil
			}
			// model
			var exp, expIdx []int
			for li, sid := range live {
				if subMatches(w.Subs[sid], tp) {
					exp = append(exp, sid)
					expIdx = append(expIdx, li)
				}
			}
			if len(exp) >= 2 {
				multi = true
			}
			var gotSend []int
			var failed []int
			var gotClean []int
			bad := ""
			failedIdx := map[int]bool{} // registry entries (indexes into live) whose delivery failed
			resolveErrs := 0            // selections applied to an event whose msg field fails to resolve
			for _, e := range env.log {
				p := strings.SplitN(e.Detail, "|", 3)
				sid, _ := strconv.Atoi(p[0])
				switch e.Kind {
				case "Send":
					if p[1] == "fail" {
						failed = append(failed, sid)
						// the j-th delivery of a publish goes to the j-th live matching entry
						if len(gotSend) < len(expIdx) {
							failedIdx[expIdx[len(gotSend)]] = true
						}
					}
					gotSend = append(gotSend, sid)
					sends[sid]++
					want, rerr := w.Expect(w.Subs[sid], n)
					if rerr {
						resolveErrs++
					}
					if len(p) < 3 || p[2] != want {
						bad = fmt.Sprintf("subscriber %d received %s, expected %s", sid, e.Detail, want)
					}
				case "Cleanup":
					gotClean = append(gotClean, sid)
					cleaned[sid]++
				}
			}
			hist = append(hist, fmt.Sprintf("publish(%q, event %d, viaMutation=%v) -> count=%d err=%v resp=%s delivered=%v failed=%v cleaned=%v", tp, n, viaMut, cnt, perr, out, gotSend, failed, gotClean))
			if bad != "" {
				fail("wrong_message", "%s", bad)
				return
			}
			if fmt.Sprint(gotSend) != fmt.Sprint(exp) {
				fail("wrong_recipients_or_order", "publish(%q): delivered to %v, the live matching subscribers in registration order are %v", tp, gotSend, exp)
				return
			}
			// failed deliveries whose error says something (a subscriber may
			// return an error group without members: the statement does not ask the
			// publish to report what has no content, so either outcome is taken)
			spoken, mute := 0, 0
			for _, sid := range failed {
				if w.Subs[sid].EmptyGroupErr {
					mute++
				} else {
					spoken++
				}
			}
			if viaMut {
				wantResp := `{"data":{"post":` + strconv.Itoa(len(exp)) + `}}`
				if spoken > 0 || resolveErrs > 0 {
					if !strings.Contains(out, `"errors"`) {
						fail("publish_error_missing", "a delivery failed but the mutation response carries no error: %s", out)
						return
					}
				} else if out != wantResp && !(mute > 0 && strings.Contains(out, `"errors"`)) {
					fail("publish_count_wrong", "mutation response %s, expected %s", out, wantResp)
					return
				}
			} else {
				if cnt != len(exp) {
					fail("publish_count_wrong", "publish(%q) reported %d, %d subscribers matched", tp, cnt, len(exp))
					return
				}
				if perr != (spoken > 0 || resolveErrs > 0) && !(mute > 0 && spoken == 0 && resolveErrs == 0) {
					fail("publish_error_mismatch", "publish(%q): error=%v but failed deliveries=%v, selections that hit an unresolvable field=%d", tp, perr, failed, resolveErrs)
					return
				}
			}
			if resolveErrs > 0 {
				res.Count("fault_event_field_failed_to_resolve", resolveErrs)
			}
			if len(failed) > 0 {
				failedDelivery = true
				res.Count("fault_subscriber_delivery_failed", len(failed))
			}
			if !sameSet(gotClean, failed) {
				fail("failed_subscriber_cleanup_wrong", "deliveries to %v failed, clean-up was called for %v", failed, gotClean)
				return
			}
			var rest []int
			for li, sid := range live {
				if failedIdx[li] {
					removed[sid]++
				} else {
					rest = append(rest, sid)
				}
			}
			live = rest
		default: // unsubscribe
			tp := topic()
			cnt := w.Root.Unsubscribe(tp)
			var exp, rest []int
			for _, sid := range live {
				if subMatches(w.Subs[sid], tp) {
					exp = append(exp, sid)
					removed[sid]++
				} else {
					rest = append(rest, sid)
				}
			}
			var gotClean []int
			for _, e := range env.log {
				sid, _ := strconv.Atoi(strings.SplitN(e.Detail, "|", 2)[0])
				switch e.Kind {
				case "Cleanup":
					gotClean = append(gotClean, sid)
					cleaned[sid]++
				case "Send":
					fail("send_during_unsubscribe", "unsubscribe(%q) delivered a message to subscriber %d", tp, sid)
					return
				}
			}
			hist = append(hist, fmt.Sprintf("unsubscribe(%q) -> %d cleaned=%v", tp, cnt, gotClean))
			if len(exp) > 0 && len(rest) > 0 {
				subsetUnsub = true
			}
			if cnt != len(exp) {
				fail("unsubscribe_count_wrong", "unsubscribe(%q) returned %d, %d live subscribers match (%v)", tp, cnt, len(exp), exp)
				return
			}
			if !sameSet(gotClean, exp) {
				fail("unsubscribe_cleanup_wrong", "unsubscribe(%q): matching live subscribers %v, clean-up called for %v", tp, exp, gotClean)
				return
			}
			live = rest
		}
		// subscribers keep the value of their last delivery: it stays what it was
		for _, sid := range live {
			w.Subs[sid].CheckKept()
		}
		for _, e := range env.log {
			if e.Kind == "ValueChanged" {
				fail("delivered_message_changed_later", "the message a subscriber was sent changed after the delivery: subscriber %s", e.Detail)
				return
			}
		}
		for sid, n := range cleaned {
			// once per removed registry entry (a subscriber object can stand behind
			// several entries)
			if n > removed[sid] {
				fail("cleanup_called_twice", "clean-up of subscriber %d was called %d times, %d of its registry entries were removed", sid, n, removed[sid])
				return
			}
		}
	}
	if failedDelivery {
		res.Count("probe_history_with_failed_delivery", 1)
	}
	if multi {
		res.Count("probe_publish_matched_several", 1)
	}
	if subsetUnsub {
		res.Count("probe_unsubscribe_of_strict_subset", 1)
	}
	return
}
