package checks

import (
	"fmt"
	"github.com/uhn/ggql/pkg/ggql"
	"regexp"
	"sort"
	"strconv"
	"strings"

	"verif/sim/core"
	"verif/sim/tape"
	"verif/workload"
)

// C06: each field failure is reported once, at the right path, keeping partial
// data. A run draws a data graph, a strategy and a request, resolves it
// fault-free (R0, which also lists every resolver invocation with its position)
// and then makes every invocation fail in turn (plus sampled pairs/triples), on
// a fresh root each time, comparing the response with R0.
type C06 struct{}

func init() { register(C06{}) }

func (C06) ID() string      { return "C06" }
func (C06) Level() string   { return "fault_enumeration" }
func (C06) NeedsRace() bool { return false }
func (C06) Rule() string {
	return "a case is one (data graph, strategy, request, fault plan): the fault-free resolution lists every resolver invocation (field resolvers, list accessors, leaf values) with its response position; " +
		"every one of them is then made to fail in turn with one of 5 failure kinds (thorough: every applicable kind at every site; quick: one drawn kind per site, at most 40 sites per request), plus 3 sampled pairs/triples of independent sites; " +
		"non-trivial = the fault fired below the top level (inside a list, a list of lists, behind an alias or inside a fragment); distinct = distinct hashes of (request, strategy, site path or number, kind)"
}
func (C06) Assumptions() []string {
	return []string{
		"positions are known independently of ggql for the interface strategy and the position-carrying any strategy (every object handed to ggql is a wrapper that knows its response path); for reflection and the plain any strategy the check is the weaker consistency form: one entry per fired failure, each path addresses a null, and nothing else differs from the fault-free response",
		"requests are generated without deliberate errors and with unique response keys per selection set; fields repeated through fragments fail together (faults are keyed by position)",
	}
}
func (C06) Components() map[string]string {
	return map[string]string{
		"pkg/ggql (executable parser, resolver, error path assembly, output coercion)": "real",
		"resolvers / data graph": "stub (harness zoo) with injected failures: error, *ggql.Error with extensions, ggql.Errors group, AnyResolver.Nth error, un-coercible leaf value",
		"oracle":                 "differential against the fault-free response of the same request + harness-known positions",
	}
}

// c06Depth is the value ggql.MaxResolveDepth is set to for the current run (0 =
// left alone).
var c06Depth int

// c06DepthEarly: the knob is assigned before the root is built.
var c06DepthEarly bool

var fragSeg = regexp.MustCompile(`^fragment at \d+:\d+$`)

type c06Case struct {
	z0resp map[string]interface{}
	data0  interface{}
}

func resolveTracked(q *workload.Query, strat workload.Strategy, req *workload.Request, plan *workload.FaultPlan) (resp map[string]interface{}, tr *workload.Tracker, panicked string) {
	if c06Depth > 0 && c06DepthEarly {
		old := ggql.MaxResolveDepth
		ggql.MaxResolveDepth = c06Depth
		defer func() { ggql.MaxResolveDepth = old }()
	}
	z, err := workload.NewZoo(q, strat)
	if err != nil {
		return nil, nil, "cannot build root: " + err.Error()
	}
	// a tuning knob of the library, assigned after the root exists (before it is
	// built when c06DepthEarly is set, see below)
	if c06Depth > 0 && !c06DepthEarly {
		old := ggql.MaxResolveDepth
		ggql.MaxResolveDepth = c06Depth
		defer func() { ggql.MaxResolveDepth = old }()
	}
	tr = &workload.Tracker{Plan: plan, NoBadLeaf: strat == workload.StratReflect}
	z.SetTracker(tr)
	defer z.SetTracker(nil)
	defer func() {
		if r := recover(); r != nil {
			panicked = fmt.Sprint(r)
		}
	}()
	vars := map[string]interface{}{}
	for k, v := range req.Vars {
		vars[k] = v
	}
	resp = z.Root.ResolveString(req.Src, req.Op, vars)
	return
}

func deepCopy(v interface{}) interface{} {
	switch tv := v.(type) {
	case map[string]interface{}:
		out := make(map[string]interface{}, len(tv))
		for k, x := range tv {
			out[k] = deepCopy(x)
		}
		return out
	case []interface{}:
		out := make([]interface{}, len(tv))
		for i, x := range tv {
			out[i] = deepCopy(x)
		}
		return out
	}
	return v
}

// nullAt returns data with the position at path set to null; ok is false when
// the path cannot be walked.
func nullAt(data interface{}, path []interface{}) (interface{}, bool) {
	if len(path) == 0 {
		return nil, true
	}
	switch seg := path[0].(type) {
	case string:
		m, _ := data.(map[string]interface{})
		if m == nil {
			return data, false
		}
		sub, has := m[seg]
		if !has {
			return data, false
		}
		nv, ok := nullAt(sub, path[1:])
		m[seg] = nv
		return m, ok
	default:
		l, _ := data.([]interface{})
		i := toIndex(seg)
		if l == nil || i < 0 || i >= len(l) {
			return data, false
		}
		nv, ok := nullAt(l[i], path[1:])
		l[i] = nv
		return l, ok
	}
}

// setAt returns data with the position at path replaced by v (when the path
// can be walked).
func setAt(data interface{}, path []interface{}, v interface{}) interface{} {
	if len(path) == 0 {
		return v
	}
	switch seg := path[0].(type) {
	case string:
		if m, _ := data.(map[string]interface{}); m != nil {
			if sub, has := m[seg]; has {
				m[seg] = setAt(sub, path[1:], v)
			}
		}
	default:
		if l, _ := data.([]interface{}); l != nil {
			if i := toIndex(seg); 0 <= i && i < len(l) {
				l[i] = setAt(l[i], path[1:], v)
			}
		}
	}
	return data
}

func toIndex(v interface{}) int {
	switch x := v.(type) {
	case int:
		return x
	case int64:
		return int(x)
	case float64:
		return int(x)
	}
	return -1
}

func valueAt(data interface{}, path []interface{}) (interface{}, bool) {
	for _, seg := range path {
		switch s := seg.(type) {
		case string:
			m, _ := data.(map[string]interface{})
			if m == nil {
				return nil, false
			}
			v, has := m[s]
			if !has {
				return nil, false
			}
			data = v
		default:
			l, _ := data.([]interface{})
			i := toIndex(seg)
			if l == nil || i < 0 || i >= len(l) {
				return nil, false
			}
			data = l[i]
		}
	}
	return data, true
}

// diffPaths lists the minimal positions where a and b differ.
func diffPaths(a, b interface{}, prefix []interface{}, out *[]string) {
	am, aok := a.(map[string]interface{})
	bm, bok := b.(map[string]interface{})
	if aok && bok && len(am) == len(bm) {
		same := true
		for k := range am {
			if _, has := bm[k]; !has {
				same = false
			}
		}
		if same {
			for _, k := range sortedKeys(am) {
				diffPaths(am[k], bm[k], append(append([]interface{}{}, prefix...), k), out)
			}
			return
		}
	}
	al, aok := a.([]interface{})
	bl, bok := b.([]interface{})
	if aok && bok && len(al) == len(bl) {
		for i := range al {
			diffPaths(al[i], bl[i], append(append([]interface{}{}, prefix...), i), out)
		}
		return
	}
	if workload.CanonLite(a) != workload.CanonLite(b) {
		*out = append(*out, workload.CanonLite(prefix))
	}
}

func sortedKeys(m map[string]interface{}) []string {
	ks := make([]string, 0, len(m))
	for k := range m {
		ks = append(ks, k)
	}
	// insertion sort, tiny maps
	for i := 1; i < len(ks); i++ {
		for j := i; j > 0 && ks[j] < ks[j-1]; j-- {
			ks[j], ks[j-1] = ks[j-1], ks[j]
		}
	}
	return ks
}

func parsePath(s string) []interface{} {
	// s is CanonLite of a path: ["a",1,"b"]
	s = strings.TrimSpace(s)
	if s == "[]" || s == "" {
		return []interface{}{}
	}
	s = s[1 : len(s)-1]
	var out []interface{}
	for len(s) > 0 {
		if s[0] == '"' {
			j := 1
			for j < len(s) && s[j] != '"' {
				if s[j] == '\\' {
					j++
				}
				j++
			}
			u, _ := strconv.Unquote(s[:j+1])
			out = append(out, u)
			s = s[j+1:]
		} else {
			j := 0
			for j < len(s) && s[j] != ',' {
				j++
			}
			n, _ := strconv.Atoi(s[:j])
			out = append(out, n)
			s = s[j:]
		}
		s = strings.TrimPrefix(s, ",")
	}
	return out
}

// c06Check compares a faulted response with the fault-free one. It returns the
// violation class ("" when fine) and a description.
func c06Check(strat workload.Strategy, pathAware bool, r0 map[string]interface{}, resp map[string]interface{}, fired []workload.Fired) (string, string) {
	var entries []map[string]interface{}
	if ea, _ := resp["errors"].([]interface{}); ea != nil {
		for _, e := range ea {
			if m, _ := e.(map[string]interface{}); m != nil {
				entries = append(entries, m)
			}
		}
	}
	used := make([]bool, len(entries))
	badListSeen := map[string]bool{}
	twinSeen := map[string]bool{}
	fragNote := ""
	entryPath := func(m map[string]interface{}) []interface{} {
		p, _ := m["path"].([]interface{})
		if p == nil {
			p = []interface{}{}
		}
		return p
	}
	var gotPaths []string
	for _, f := range fired {
		n := 0
		for i, m := range entries {
			msg, _ := m["message"].(string)
			match := strings.Contains(msg, f.Tag)
			wantPath := f.Path
			if f.Kind == workload.FaultShared {
				// one error value returned by several sites: entries can only be told
				// apart by their path
				match = !used[i] && strings.Contains(msg, "#shared#") && (!pathAware || workload.CanonLite(stripFrag(entryPath(m))) == f.Path)
			}
			if f.Kind == workload.FaultBadLeaf {
				match = !used[i] && strings.Contains(msg, "badLeaf") && (!pathAware || workload.CanonLite(stripFrag(entryPath(m))) == f.Path)
			}
			if f.Kind == workload.FaultBadList {
				// two coercion failures in one list: elements 1 and 3
				sp := workload.CanonLite(stripFrag(entryPath(m)))
				bp := workload.BadListPaths(f.Field)
				p1 := workload.CanonLite(append(parsePath(f.Path), bp[0]...))
				p3 := workload.CanonLite(append(parsePath(f.Path), bp[1]...))
				match = !used[i] && strings.Contains(msg, "badLeaf") && (sp == p1 || sp == p3) && !badListSeen[f.Tag+sp]
				if match {
					badListSeen[f.Tag+sp] = true
					wantPath = sp
				}
			}
			if !match || used[i] {
				continue
			}
			used[i] = true
			n++
			ep := entryPath(m)
			gotPaths = append(gotPaths, workload.CanonLite(ep))
			if f.Kind == workload.FaultGroupExt {
				ext, _ := m["extensions"].(map[string]interface{})
				want := ""
				for k := 1; k <= 2; k++ {
					if strings.Contains(msg, "member "+strconv.Itoa(k)+" ") {
						want = "E" + strconv.Itoa(f.N) + "m" + strconv.Itoa(k)
					}
				}
				if ext == nil || ext["code"] != want {
					return "extensions_lost", fmt.Sprintf("member %q of the error group returned at %s carried extensions {code: %s}, the entry has %v", msg, f.Path, want, m["extensions"])
				}
			}
			if pathAware && workload.CanonLite(ep) != wantPath {
				if workload.CanonLite(stripFrag(ep)) == wantPath {
					fragNote = fmt.Sprintf("failure at %s (%s) is reported with path %s: the path contains a 'fragment at L:C' segment that is not a response key", wantPath, f.Kind, workload.CanonLite(ep))
					goto pathOK
				}
				return "wrong_error_path", fmt.Sprintf("failure at %s (%s) is reported with path %s", wantPath, f.Kind, workload.CanonLite(ep))
			}
			if false && pathAware && workload.CanonLite(ep) != f.Path {
				if workload.CanonLite(stripFrag(ep)) == f.Path {
					// known open finding: note it and keep checking everything else
					fragNote = fmt.Sprintf("failure at %s (%s) is reported with path %s: the path contains a 'fragment at L:C' segment that is not a response key", f.Path, f.Kind, workload.CanonLite(ep))
					goto pathOK
				}
				return "wrong_error_path", fmt.Sprintf("failure at %s (%s) is reported with path %s", f.Path, f.Kind, workload.CanonLite(ep))
			}
		pathOK:
			if f.Kind == workload.FaultShared {
				ext, _ := m["extensions"].(map[string]interface{})
				if ext == nil || ext["code"] != "ES" {
					return "extensions_lost", fmt.Sprintf("the shared error value returned at %s carried extensions {code: ES}, the entry has %v", f.Path, m["extensions"])
				}
				break // one entry per site
			}
			if f.Kind == workload.FaultTwinGroup && strings.Contains(msg, "twin") {
				ext, _ := m["extensions"].(map[string]interface{})
				code, _ := ext["code"].(string)
				if code != "E"+strconv.Itoa(f.N)+"t1" && code != "E"+strconv.Itoa(f.N)+"t2" || twinSeen[code] {
					return "extensions_lost", fmt.Sprintf("the two equal-text members of the group returned at %s carried extensions {code: E%dt1} and {code: E%dt2}; an entry has %v", f.Path, f.N, f.N, m["extensions"])
				}
				twinSeen[code] = true
			}
			if f.Kind == workload.FaultGGQLError || f.Kind == workload.FaultWrapGGQL || f.Kind == workload.FaultOwnPath || f.Kind == workload.FaultOverGroup {
				ext, _ := m["extensions"].(map[string]interface{})
				if ext == nil || ext["code"] != "E"+strconv.Itoa(f.N) {
					return "extensions_lost", fmt.Sprintf("failure at %s carried extensions {code: E%d}, the entry has %v", f.Path, f.N, m["extensions"])
				}
			}
			if f.Kind == workload.FaultBadLeaf && n == f.Members {
				break
			}
		}
		if f.Kind == workload.FaultNthGroup && (n == 1 || n == 2) {
			// the list accessor failed once, with a group: the statement asks for
			// one entry per member of a group a RESOLVER returns; for the accessor
			// one entry for the failure (what the library does) and one per member
			// are both taken - each at the member's index
			continue
		}
		if n != f.Members {
			return "failure_not_reported_exactly_once", fmt.Sprintf("failure #%d at %s (%s) must yield %d error entries, the response has %d (errors: %s)", f.N, f.Path, f.Kind, f.Members, n, workload.CanonLite(resp["errors"]))
		}
	}
	for i, m := range entries {
		if !used[i] {
			return "unexpected_error_entry", fmt.Sprintf("the response has an error that belongs to no injected failure: %s", workload.CanonLite(m))
		}
	}
	// data
	if pathAware {
		exp := deepCopy(r0["data"])
		for _, f := range fired {
			var ok bool
			if f.Kind == workload.FaultBadList {
				_, want := workload.BadListFor(f.Field)
				exp = setAt(exp, parsePath(f.Path), want)
				continue
			}
			exp, ok = nullAt(exp, parsePath(f.Path))
			if !ok {
				// the position does not exist in the fault-free data (it is beneath a
				// position that is null there): nothing to null out
				continue
			}
		}
		if workload.CanonLite(exp) != workload.CanonLite(resp["data"]) {
			var d []string
			diffPaths(exp, resp["data"], nil, &d)
			return "partial_data_wrong", fmt.Sprintf("data differs from the fault-free data with the failed positions nulled, at %v:\nexpected %s\ngot      %s", d, workload.CanonLite(exp), workload.CanonLite(resp["data"]))
		}
		if fragNote != "" {
			return "error_path_has_fragment_segment", fragNote
		}
		return "", ""
	}
	for _, gp := range gotPaths {
		v, ok := valueAt(resp["data"], stripFrag(parsePath(gp)))
		if !ok {
			return "error_path_addresses_nothing", fmt.Sprintf("error path %s does not address a position of the response data %s", gp, workload.CanonLite(resp["data"]))
		}
		if v != nil && strat == workload.StratReflect && (v == "" || workload.CanonLite(v) == "0") {
			return "reflection_value_returned_with_error_is_kept", fmt.Sprintf("the reflection method returned (zero value, error); the value at error path %s is %s, not null", gp, workload.CanonLite(v))
		}
		if v != nil {
			return "failed_position_not_null", fmt.Sprintf("the value at error path %s is %s, not null", gp, workload.CanonLite(v))
		}
	}
	var d []string
	diffPaths(r0["data"], resp["data"], nil, &d)
	for _, dp := range d {
		found := false
		for _, gp := range gotPaths {
			if workload.CanonLite(stripFrag(parsePath(gp))) == dp {
				found = true
			}
		}
		if !found {
			return "partial_data_wrong", fmt.Sprintf("data differs from the fault-free data at %s, which is not the position of a reported failure (%v)", dp, gotPaths)
		}
	}
	return "", ""
}

func extendPath(p []interface{}, x interface{}) []interface{} {
	out := make([]interface{}, len(p)+1)
	copy(out, p)
	out[len(p)] = x
	return out
}

func sortedKeysOf(m map[string]interface{}) []string {
	ks := make([]string, 0, len(m))
	for k := range m {
		ks = append(ks, k)
	}
	sort.Strings(ks)
	return ks
}

func stripFrag(p []interface{}) []interface{} {
	var out []interface{}
	for _, s := range p {
		if str, ok := s.(string); ok && fragSeg.MatchString(str) {
			continue
		}
		out = append(out, s)
	}
	if out == nil {
		out = []interface{}{}
	}
	return out
}

var c06Kinds = []string{workload.FaultError, workload.FaultGGQLError, workload.FaultErrorGroup, workload.FaultBadLeaf,
	workload.FaultGroupExt, workload.FaultNestedGrp, workload.FaultBadList, workload.FaultTwinGroup, workload.FaultWrapGroup, workload.FaultWrapGGQL, workload.FaultOwnPath, workload.FaultTypedNil, workload.FaultOverGroup, workload.FaultWrapPlain}

// runSubscription is the subscription family of C06: a subscription operation
// whose root fields the subscription resolver accepts or refuses (a plain error
// or a group of two). Every refusal is one entry (one per member of a group)
// whose path is the response key of the refused field.
func (c C06) runSubscription(t *tape.Tape, opt core.RunOpt) (res core.Result) {
	w, err := workload.NewSubWorld(&seqEnv{})
	if err != nil {
		res.Fatal = "cannot load the subscription schema: " + err.Error()
		return
	}
	w.ListEvents = t.Bool(1, 4)
	fname := "watch"
	if w.ListEvents {
		fname = "watchBatch"
	}
	n := 1 + t.Draw(3)
	var parts []string
	type exp struct {
		key string
		n   int
	}
	var want []exp
	for i := 0; i < n; i++ {
		key := fname
		sid := i + 1
		w.AddSub(&workload.SimSub{ID: sid, Topic: "a"})
		mine := -1
		switch t.Draw(4) {
		case 0:
			sid = 99
			want = append(want, exp{key, 1})
			mine = len(want) - 1
		case 1:
			sid = 98
			want = append(want, exp{key, 2})
			mine = len(want) - 1
		}
		f := fmt.Sprintf("%s(topic: \"a\", sid: %d) { id }", fname, sid)
		if i > 0 || t.Bool(1, 2) {
			key = fmt.Sprintf("k%d", i)
			f = key + ": " + f
		}
		if mine >= 0 {
			want[mine].key = key
		}
		switch t.Draw(4) {
		case 0:
			f = "... { " + f + " }"
		case 1:
			f = "... on Subscription { " + f + " }"
		}
		parts = append(parts, f)
	}
	src := "subscription { " + strings.Join(parts, " ") + " }"
	res.Evaluations = 1
	res.Sig = core.Hash64("c06sub", src)
	res.NonTrivial = len(want) > 0
	res.Count("probe_subscription_operation", 1)
	resp := w.Root.ResolveString(src, "", nil)
	if opt.WantSample {
		res.Sample = map[string]interface{}{"family": "subscription operation with refused root fields", "request": src, "response": workload.CanonLite(resp)}
	}
	fail := func(cls, detail string) {
		res.Violate("C06", cls, fmt.Sprintf("subscription operation: %s\nrequest: %s\nresponse: %s", detail, src, workload.CanonLite(resp)), nil)
	}
	if resp["data"] != nil {
		fail("subscription_response_has_data", "the response of a subscription request carries data")
		return
	}
	ea, _ := resp["errors"].([]interface{})
	got := map[string]int{}
	for _, e := range ea {
		m, _ := e.(map[string]interface{})
		p, _ := m["path"].([]interface{})
		got[workload.CanonLite(stripFrag(p))]++
	}
	total := 0
	for _, x := range want {
		total += x.n
		ps := workload.CanonLite([]interface{}{x.key})
		if got[ps] != x.n {
			cls := "failure_not_reported_exactly_once"
			if got[ps] == 0 {
				cls = "error_path_addresses_nothing"
			}
			fail(cls, fmt.Sprintf("the subscription field with the response key %q was refused with %d error(s): expected %d entr(ies) with the path %s, found %d", x.key, x.n, x.n, ps, got[ps]))
			return
		}
	}
	if len(ea) != total {
		fail("failure_not_reported_exactly_once", fmt.Sprintf("%d refusals in all, %d entries", total, len(ea)))
	}
	return
}

// c06ArgFields are request fields with arguments, each argument with a good
// value and values that cannot be formed ("" = the argument is left out,
// which fails for a required argument).
var c06ArgFields = []struct {
	pre, post, name string
	args            []struct {
		name, good string
		bad        []string
	}
}{
	{"{ ", " }", "echo", []struct {
		name, good string
		bad        []string
	}{
		{"s", `"a"`, []string{`[1]`, `{a: 1}`, ``}}, {"n", `1`, []string{`"x"`, `[1]`, ``, `1.5`}}}},
	{"{ animals { name ", " } }", "call", []struct {
		name, good string
		bad        []string
	}{
		{"prefix", `"p"`, []string{`[1]`, `{a: 1}`}}, {"suffix", `"s"`, []string{`{b: 2}`, `[true]`}}}},
	{"mutation { ", " { name } }", "rename", []struct {
		name, good string
		bad        []string
	}{
		{"old", `"k0"`, []string{`[1]`, ``}}, {"new", `"zz"`, []string{`{a: 1}`, ``}}}},
	{"{ title ", " }", "span", []struct {
		name, good string
		bad        []string
	}{
		{"r", `{lo: 1}`, []string{`{lo: "x"}`, `{hi: [1]}`, `{lo: "x", hi: "y"}`, `{inner: {lo: "x"}, tags: {a: 1}}`, `5`}}}},
	{"{ ", " { name } }", "find", []struct {
		name, good string
		bad        []string
	}{
		{"filter", `{minAge: 1}`, []string{`{minAge: "x"}`, `{minAge: "x", limit: "y"}`, `{names: {a: 1}, size: 5}`}}}},
}

// runArgFailures is the argument family of C06: a field whose arguments cannot
// be formed fails at that position. Each unformable argument alone gives its
// entries; several of them together must give the union of those entries (one
// entry per independent failure), and the data must be the same.
func (c C06) runArgFailures(t *tape.Tape, opt core.RunOpt) (res core.Result) {
	// (not the reflection strategy: there the library refuses the method call as
	// a whole, which is one failure however many arguments do not fit)
	strat := []workload.Strategy{workload.StratInterface, workload.StratAnyWrapped, workload.StratAny}[t.Draw(3)]
	q := workload.GenZoo(t)
	f := c06ArgFields[t.Draw(len(c06ArgFields))]
	render := func(vals []string) string {
		var as []string
		for i, a := range f.args {
			if vals[i] != "" {
				as = append(as, a.name+": "+vals[i])
			}
		}
		call := f.name
		if len(as) > 0 {
			call += "(" + strings.Join(as, ", ") + ")"
		}
		return f.pre + call + f.post
	}
	resolve := func(src string) (map[string]interface{}, string) {
		z, err := workload.NewZoo(q, strat)
		if err != nil {
			return nil, "cannot build root: " + err.Error()
		}
		var out map[string]interface{}
		pan := ""
		func() {
			defer func() {
				if r := recover(); r != nil {
					pan = fmt.Sprint(r)
				}
			}()
			out = z.Root.ResolveString(src, "", nil)
		}()
		return out, pan
	}
	entries := func(r map[string]interface{}) []string {
		var out []string
		ea, _ := r["errors"].([]interface{})
		for _, e := range ea {
			m, _ := e.(map[string]interface{})
			out = append(out, workload.CanonLite(m["path"])+" "+workload.CanonLite(m["message"]))
		}
		sort.Strings(out)
		return out
	}
	good := make([]string, len(f.args))
	for i, a := range f.args {
		good[i] = a.good
	}
	// which arguments are bad, and how
	bad := make([]string, len(f.args))
	nbad := 0
	for i, a := range f.args {
		bad[i] = a.good
		if t.Bool(2, 3) {
			bad[i] = a.bad[t.Draw(len(a.bad))]
			nbad++
		}
	}
	res.Evaluations = 1
	res.Sig = core.Hash64("c06args", strat.String(), render(bad))
	res.Count("probe_argument_failure_family", 1)
	if nbad == 0 {
		return
	}
	var union []string
	var dataSingle string
	var singles []string
	for i := range f.args {
		if bad[i] == f.args[i].good {
			continue
		}
		vals := append([]string(nil), good...)
		vals[i] = bad[i]
		src := render(vals)
		r, pan := resolve(src)
		res.Evaluations++
		if pan != "" {
			res.Violate("C06", "panic_on_resolver_failure", fmt.Sprintf("%s strategy: %s panicked: %s", strat, src, pan), nil)
			return
		}
		es := entries(r)
		if len(es) == 0 {
			// the library accepts this value for this argument: not a failure
			res.Count("argument_value_accepted_skipped", 1)
			return
		}
		union = append(union, es...)
		dataSingle = workload.CanonLite(r["data"])
		singles = append(singles, src+" -> "+workload.CanonLite(r))
	}
	if nbad < 2 {
		return
	}
	res.NonTrivial = true
	sort.Strings(union)
	src := render(bad)
	r, pan := resolve(src)
	res.Evaluations++
	if opt.WantSample {
		res.Sample = map[string]interface{}{"family": "several arguments of one field that cannot be formed", "strategy": strat.String(), "request": src, "alone": singles, "response": workload.CanonLite(r)}
	}
	if pan != "" {
		res.Violate("C06", "panic_on_resolver_failure", fmt.Sprintf("%s strategy: %s panicked: %s", strat, src, pan), nil)
		return
	}
	got := entries(r)
	if strings.Join(got, "\n") != strings.Join(union, "\n") {
		res.Violate("C06", "failure_not_reported_exactly_once", fmt.Sprintf("%s strategy: %d arguments of one field cannot be formed; each alone gives\n  %s\ntogether the response must carry the union of those entries\n  %s\nbut carries\n  %s\nrequest: %s\nresponse: %s",
			strat, nbad, strings.Join(singles, "\n  "), strings.Join(union, "\n  "), strings.Join(got, "\n  "), src, workload.CanonLite(r)), nil)
		return
	}
	if d := workload.CanonLite(r["data"]); d != dataSingle {
		res.Violate("C06", "partial_data_wrong", fmt.Sprintf("%s strategy: with several unformable arguments the data is %s, with one of them %s\nrequest: %s", strat, d, dataSingle, src), nil)
	}
	return
}

// c06Repeated are requests that select one response key more than once in one
// selection set (directly, through inline fragments, an object selected again):
// the library makes one resolver invocation per selection.
var c06Repeated = []string{
	"{ title title }",
	"{ title ... on Query { title } }",
	"{ count title ... { title count } }",
	"{ boss { name } boss { name } }",
	"{ boss { name age } ... on Query { boss { name } } }",
	"{ keepers { name } ... { keepers { name } } }",
	"{ keepers { name age } keepers { name } }",
	"{ animals { name } animals { name legs } }",
	"{ boss { name name } }",
	"{ boss { friend { name } friend { name age } } }",
}

// runRepeatedKeys is the repeated-key family of C06: when the LAST invocation
// made for a response key fails, that position is null and has its one entry
// (whatever an earlier invocation for the same key produced).
func (c C06) runRepeatedKeys(t *tape.Tape, opt core.RunOpt) (res core.Result) {
	strat := []workload.Strategy{workload.StratInterface, workload.StratAnyWrapped}[t.Draw(2)]
	q := workload.GenZoo(t)
	req := &workload.Request{Src: c06Repeated[t.Draw(len(c06Repeated))]}
	c06Depth = 0
	r0, tr0, pan := resolveTracked(q, strat, req, &workload.FaultPlan{})
	res.Evaluations = 1
	res.Sig = core.Hash64("c06rep", strat.String(), req.Src)
	res.Count("probe_repeated_response_key_family", 1)
	if pan != "" || tr0 == nil {
		return
	}
	if _, has := r0["errors"]; has {
		return
	}
	// the last invocation made for each path that was invoked more than once
	last := map[string]int{}
	count := map[string]int{}
	for _, cl := range tr0.Calls {
		if cl.Path == "" || cl.Type == "list" {
			continue
		}
		last[cl.Path] = cl.N
		count[cl.Path]++
	}
	var sites []string
	for p, n := range count {
		if n > 1 {
			sites = append(sites, p)
		}
	}
	sort.Strings(sites)
	if len(sites) == 0 {
		return
	}
	p := sites[t.Draw(len(sites))]
	kind := []string{workload.FaultError, workload.FaultGGQLError, workload.FaultErrorGroup}[t.Draw(3)]
	plan := &workload.FaultPlan{FailAt: map[int]string{last[p]: kind}}
	resp, tr, pan := resolveTracked(q, strat, req, plan)
	res.Evaluations++
	desc := fmt.Sprintf("failure %s at the last of the %d invocations made for %s (invocation %d)", kind, count[p], p, last[p])
	if opt.WantSample {
		res.Sample = map[string]interface{}{"family": "one response key selected more than once, the last invocation for it fails", "strategy": strat.String(), "request": req.Src, "fault": desc, "response": workload.CanonLite(resp)}
	}
	if pan != "" {
		res.Violate("C06", "panic_on_resolver_failure", fmt.Sprintf("resolving with %s panicked: %s\nrequest:\n%s", desc, pan, req.Src), nil)
		return
	}
	if tr == nil || len(tr.Fired) == 0 {
		return
	}
	res.NonTrivial = true
	// the fault-free data with the failed position nulled is what the data must
	// be: c06Check works from the positions of the fired failures
	cls, detail := c06Check(strat, true, r0, resp, tr.Fired)
	if cls != "" {
		res.Violate("C06", cls, fmt.Sprintf("%s strategy, %s: %s\nrequest:\n%s\nfault-free response: %s\nfaulted response:    %s",
			strat, desc, detail, req.Src, workload.CanonLite(r0), workload.CanonLite(resp)), nil)
	}
	return
}

func (c C06) Run(t *tape.Tape, opt core.RunOpt) (res core.Result) {
	if t.Bool(1, 12) {
		return c.runSubscription(t, opt)
	}
	if t.Bool(1, 14) {
		return c.runRepeatedKeys(t, opt)
	}
	if t.Bool(1, 12) {
		return c.runArgFailures(t, opt)
	}
	strat := []workload.Strategy{workload.StratInterface, workload.StratInterface, workload.StratAnyWrapped, workload.StratAnyWrapped, workload.StratReflect, workload.StratAny}[t.Draw(6)]
	pathAware := strat == workload.StratInterface || strat == workload.StratAnyWrapped
	q := workload.GenZoo(t)
	q.UseListResolver = t.Bool(1, 2)
	// reflection: a method whose Go parameter cannot take the null the schema
	// allows is a failure site of its own (the call is refused)
	nick := strat == workload.StratReflect && t.Bool(1, 3)
	req := workload.GenRequest(t, workload.ReqOpt{Strat: strat, NoErrors: true, UniqueKeys: true, NoUnion: pathAware, NoFragments: !pathAware, Nick: nick, Ghost: nick,
		MultiOp: t.Bool(1, 5), VarInLiteral: strat != workload.StratReflect, ShuffleArgs: true, MaxDepth: 2 + t.Draw(4)})
	thorough := opt.Tier == "thorough"
	// (values well above the nesting of the generated requests: what the library
	// answers beyond the limit - the unresolved Go value - is outside the property)
	c06Depth = []int{0, 0, 40, 250}[t.Draw(4)]
	c06DepthEarly = t.Bool(1, 2)
	tight := t.Bool(1, 5)
	if strings.Contains(req.Src, "matrix") {
		// (lists of lists of scalars use up levels without a resolver invocation
		// to count: the smallest sufficient limit cannot be found this way)
		tight = false
	}
	if tight {
		// the smallest limit that still resolves everything the request selects
		// (the deepest fields are then resolved with exactly one level left):
		// found by comparing the resolver invocations with the unlimited run
		c06Depth = 0
		_, trU, panU := resolveTracked(q, strat, req, &workload.FaultPlan{})
		if panU == "" && trU != nil {
			for m := 2; m <= 40; m++ {
				c06Depth = m
				_, trM, panM := resolveTracked(q, strat, req, &workload.FaultPlan{})
				if panM == "" && trM != nil && len(trM.Calls) == len(trU.Calls) {
					break
				}
				c06Depth = 0
			}
		}
		if c06Depth > 0 {
			c06Depth++
			res.Count("probe_depth_limit_just_above_the_request_nesting", 1)
		}
	}
	r0, tr0, pan := resolveTracked(q, strat, req, &workload.FaultPlan{})
	res.Evaluations = 1
	res.Sig = core.Hash64("r0", strat.String(), req.Src, req.Op)
	sample := map[string]interface{}{"strategy": strat.String(), "request": req.Src, "op": req.Op, "vars": fmt.Sprint(req.Vars)}
	if opt.WantSample {
		res.Sample = sample
	}
	if pan != "" {
		res.Count("fault_free_resolution_panicked", 1)
		return
	}
	if ea, has := r0["errors"].([]interface{}); has && nick {
		// no injected fault, but refused reflective calls: each is reported once,
		// at a path that addresses a null position of the data
		seenPath := map[string]bool{}
		for _, e := range ea {
			m, _ := e.(map[string]interface{})
			msg, _ := m["message"].(string)
			if !strings.Contains(msg, "reflection error") {
				res.Count("fault_free_response_has_errors_skipped", 1)
				return
			}
			p, _ := m["path"].([]interface{})
			ps := workload.CanonLite(p)
			v, ok := valueAt(r0["data"], stripFrag(p))
			cls, detail := "", ""
			switch {
			case !ok:
				cls, detail = "error_path_addresses_nothing", "does not address a position of the response data"
			case v != nil:
				cls, detail = "failed_position_not_null", "addresses a value that is not null: "+workload.CanonLite(v)
			case seenPath[ps]:
				cls, detail = "failure_not_reported_exactly_once", "is reported twice"
			}
			seenPath[ps] = true
			if cls != "" {
				res.Violate("C06", cls, fmt.Sprintf("reflection strategy, a method call refused because the request arguments do not fit the Go method (%s): the error path %s %s\nrequest (op %q, vars %v):\n%s\nresponse: %s",
					msg, ps, detail, req.Op, req.Vars, req.Src, workload.CanonLite(r0)), nil)
				return
			}
		}
		// every position keyed "ghost" (a schema field without a Go field or
		// method: the binding fails each time it is tried) is null and has its entry
		var ghosts []string
		var walk func(v interface{}, path []interface{})
		walk = func(v interface{}, path []interface{}) {
			switch tv := v.(type) {
			case map[string]interface{}:
				for _, k := range sortedKeysOf(tv) {
					if k == "ghost" {
						ghosts = append(ghosts, workload.CanonLite(extendPath(path, k)))
					}
					walk(tv[k], extendPath(path, k))
				}
			case []interface{}:
				for i, x := range tv {
					walk(x, extendPath(path, i))
				}
			}
		}
		walk(r0["data"], nil)
		for _, gp := range ghosts {
			if !seenPath[gp] {
				res.Violate("C06", "failure_not_reported_exactly_once", fmt.Sprintf("reflection strategy: the field at %s has no Go field or method behind it (binding fails) and is null, but the response has no error entry for it\nrequest (op %q, vars %v):\n%s\nresponse: %s",
					gp, req.Op, req.Vars, req.Src, workload.CanonLite(r0)), nil)
				return
			}
		}
		res.NonTrivial = true
		res.Count("fault_reflective_call_refused_arguments_do_not_fit", len(ea)-len(ghosts))
		res.Count("fault_reflective_binding_failed_no_go_counterpart", len(ghosts))
		return
	}
	if _, has := r0["errors"]; has {
		res.Count("fault_free_response_has_errors_skipped", 1)
		sample["r0"] = workload.CanonLite(r0)
		return
	}
	// sites
	type site struct {
		path string
		n    int
		typ  string
		leaf bool
	}
	var sites []site
	seen := map[string]bool{}
	for _, cl := range tr0.Calls {
		if pathAware {
			if seen[cl.Path] {
				continue
			}
			seen[cl.Path] = true
		}
		sites = append(sites, site{path: cl.Path, n: cl.N, typ: cl.Type, leaf: cl.Leaf})
	}
	sample["sites"] = len(sites)
	if len(sites) > 40 && !thorough {
		// sample 40 sites
		var pick []site
		for i := 0; i < 40; i++ {
			pick = append(pick, sites[t.Draw(len(sites))])
		}
		sites = pick
	}
	runPlan := func(plan *workload.FaultPlan, desc string) bool {
		resp, tr, pan := resolveTracked(q, strat, req, plan)
		res.Evaluations++
		if pan != "" {
			res.Violate("C06", "panic_on_resolver_failure", fmt.Sprintf("resolving with %s panicked: %s\nrequest:\n%s", desc, pan, req.Src), nil)
			return false
		}
		if len(tr.Fired) == 0 {
			res.Count("fault_planned_but_not_reached", 1)
			return true
		}
		deep := false
		for _, f := range tr.Fired {
			res.Count("fault_resolver_"+f.Kind, 1)
			if strings.Count(f.Path, ",") >= 1 {
				deep = true
			}
			if strings.ContainsAny(f.Path, "0123456789") && strings.Count(f.Path, ",") >= 2 {
				res.Count("probe_fault_inside_list", 1)
			}
		}
		if deep || !pathAware {
			res.NonTrivial = true
		}
		res.SubSigs = append(res.SubSigs, core.Hash64(strat.String(), req.Src, req.Op, desc))
		cls, detail := c06Check(strat, pathAware, r0, resp, tr.Fired)
		if cls != "" {
			res.Violate("C06", cls, fmt.Sprintf("%s strategy, %s: %s\nrequest (op %q, vars %v):\n%s\nfault-free response: %s\nfaulted response:    %s",
				strat, desc, detail, req.Op, req.Vars, req.Src, workload.CanonLite(r0), workload.CanonLite(resp)), nil)
			return false
		}
		return true
	}
	for _, st := range sites {
		kinds := []string{c06Kinds[t.Draw(len(c06Kinds))]}
		if thorough {
			kinds = c06Kinds
		}
		for _, k := range kinds {
			if st.typ == "list" {
				k = workload.FaultNthError
			}
			plan := &workload.FaultPlan{}
			desc := ""
			if pathAware {
				plan.FailPath = map[string]string{st.path: k}
				desc = "failure " + k + " at " + st.path
			} else {
				plan.FailAt = map[int]string{st.n: k}
				desc = "failure " + k + " at invocation " + strconv.Itoa(st.n)
			}
			runPlan(plan, desc)
			if st.typ == "list" {
				break
			}
		}
	}
	// pairs / triples of independent sites
	if len(sites) >= 2 {
		for c := 0; c < 3; c++ {
			m := 2 + t.Draw(2)
			plan := &workload.FaultPlan{FailPath: map[string]string{}, FailAt: map[int]string{}}
			// every site of the plan returns one and the same *ggql.Error value
			sharedPlan := t.Bool(1, 3)
			var descs []string
			for i := 0; i < m; i++ {
				st := sites[t.Draw(len(sites))]
				k := c06Kinds[t.Draw(len(c06Kinds))]
				if sharedPlan {
					k = workload.FaultShared
				}
				if st.typ == "list" {
					k = workload.FaultNthError
				}
				if pathAware {
					indep := true
					for p := range plan.FailPath {
						a, b := strings.TrimSuffix(p, "]"), strings.TrimSuffix(st.path, "]")
						if strings.HasPrefix(a, b) || strings.HasPrefix(b, a) {
							indep = false
						}
					}
					if !indep {
						continue
					}
					plan.FailPath[st.path] = k
					descs = append(descs, k+" at "+st.path)
				} else {
					plan.FailAt[st.n] = k
					descs = append(descs, k+" at invocation "+strconv.Itoa(st.n))
				}
			}
			if len(descs) >= 2 {
				res.Count("probe_multi_fault_plans", 1)
				runPlan(plan, "failures "+strings.Join(descs, " + "))
			}
		}
	}
	return
}
