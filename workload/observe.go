package workload

import (
	"encoding/json"
	"fmt"
	"reflect"
	"sort"
	"strconv"
	"strings"

	"github.com/uhn/ggql/pkg/ggql"
)

// IntrospectionQuery is the usual full introspection request.
const IntrospectionQuery = `query IntrospectionQuery {
  __schema {
    queryType { name }
    mutationType { name }
    subscriptionType { name }
    types { ...FullType }
    directives { name description locations args { ...InputValue } }
  }
}
fragment FullType on __Type {
  kind name description
  fields(includeDeprecated: true) {
    name description
    args { ...InputValue }
    type { ...TypeRef }
    isDeprecated deprecationReason
  }
  inputFields { ...InputValue }
  interfaces { ...TypeRef }
  enumValues(includeDeprecated: true) { name description isDeprecated deprecationReason }
  possibleTypes { ...TypeRef }
}
fragment InputValue on __InputValue { name description type { ...TypeRef } defaultValue }
fragment TypeRef on __Type {
  kind name
  ofType { kind name ofType { kind name ofType { kind name ofType { kind name } } } }
}
`

// SynthNode is the data node served by the schema-driven AnyResolver.
type SynthNode struct {
	Type string
	Path string
}

// SynthResolver is an AnyResolver that fabricates a deterministic value for
// any field from the field's declared type, so that every root can answer
// requests regardless of what its schema looks like.
type SynthResolver struct {
	Root *ggql.Root
	// Calls counts Resolve invocations (observability only).
	Calls int
	// ArgLog collects the canonical argument maps of the invocations of one
	// request (reset by Observe).
	ArgLog []string
}

func (sr *SynthResolver) fieldType(field *ggql.Field) ggql.Type {
	switch ct := field.ConType.(type) {
	case *ggql.Object:
		if fd := ct.GetField(field.Name); fd != nil {
			return fd.Type
		}
	case *ggql.Interface:
		if fd := ct.GetField(field.Name); fd != nil {
			return fd.Type
		}
	case *ggql.Schema:
		if fd := ct.GetField(field.Name); fd != nil {
			return fd.Type
		}
	}
	return nil
}

func (sr *SynthResolver) synth(t ggql.Type, path string, depth int) interface{} {
	switch tt := t.(type) {
	case nil:
		return nil
	case *ggql.NonNull:
		return sr.synth(tt.Base, path, depth)
	case *ggql.List:
		if depth > 3 {
			return []interface{}{}
		}
		return []interface{}{sr.synth(tt.Base, path+"[0]", depth+1), sr.synth(tt.Base, path+"[1]", depth+1)}
	case *ggql.Object:
		return &SynthNode{Type: tt.Name(), Path: path}
	case *ggql.Schema:
		return &SynthNode{Type: "schema", Path: path}
	case *ggql.Interface:
		for _, c := range sr.Root.Types() {
			if o, _ := c.(*ggql.Object); o != nil {
				for _, i := range o.Interfaces {
					if i.Name() == tt.Name() {
						return &SynthNode{Type: o.Name(), Path: path}
					}
				}
			}
		}
		return nil
	case *ggql.Union:
		// a synthetic node cannot be bound to a union member (its Go type is the
		// same for every GraphQL type); the resulting error would carry the
		// position of the member type inside the schema text, which legitimately
		// moves with the arrangement of the document
		return nil
	case *ggql.Enum:
		if vs := tt.Values(); len(vs) > 0 {
			return string(vs[0].Value)
		}
		return nil
	}
	switch t.Name() {
	case "Int":
		return 7
	case "Int64":
		return int64(77)
	case "Float", "Float64":
		return 1.5
	case "Boolean":
		return true
	case "Time":
		return nil
	}
	return "s:" + path
}

// Resolve implements ggql.AnyResolver.
func (sr *SynthResolver) Resolve(obj interface{}, field *ggql.Field, args map[string]interface{}) (interface{}, error) {
	sr.Calls++
	p := field.Name
	if n, _ := obj.(*SynthNode); n != nil {
		p = n.Path + "." + field.Name
	}
	if len(args) > 0 {
		b, _ := json.Marshal(canonValue(args))
		p += string(b)
		if len(sr.ArgLog) < 64 {
			sr.ArgLog = append(sr.ArgLog, field.Name+string(b))
		}
	}
	return sr.synth(sr.fieldType(field), p, 0), nil
}

// Len implements ggql.AnyResolver for any slice.
func (sr *SynthResolver) Len(list interface{}) int {
	rv := reflect.ValueOf(list)
	if rv.IsValid() && (rv.Kind() == reflect.Slice || rv.Kind() == reflect.Array) {
		return rv.Len()
	}
	return 0
}

// Nth implements ggql.AnyResolver for any slice.
func (sr *SynthResolver) Nth(list interface{}, i int) (interface{}, error) {
	rv := reflect.ValueOf(list)
	if rv.IsValid() && (rv.Kind() == reflect.Slice || rv.Kind() == reflect.Array) && 0 <= i && i < rv.Len() {
		return rv.Index(i).Interface(), nil
	}
	return nil, fmt.Errorf("not a list or out of range")
}

// NewSynthRoot makes a root whose data is served by a SynthResolver.
func NewSynthRoot() *ggql.Root {
	root := ggql.NewRoot(nil)
	root.AnyResolver = &SynthResolver{Root: root}
	return root
}

// canonValue turns a response / value into something encoding/json prints
// canonically (maps sorted by key; ggql value types as plain strings).
func canonValue(v interface{}) interface{} {
	switch tv := v.(type) {
	case map[string]interface{}:
		out := map[string]interface{}{}
		for k, x := range tv {
			out[k] = canonValue(x)
		}
		return out
	case []interface{}:
		out := make([]interface{}, len(tv))
		for i, x := range tv {
			out[i] = canonValue(x)
		}
		return out
	case ggql.Symbol:
		return "sym:" + string(tv)
	case ggql.Var:
		return "$" + string(tv)
	case nil, string, bool, int, int32, int64, float32, float64, json.Number:
		return tv
	case error:
		return "error:" + tv.Error()
	case fmt.Stringer:
		return fmt.Sprintf("%T:%s", v, tv.String())
	}
	rv := reflect.ValueOf(v)
	switch rv.Kind() {
	case reflect.Slice, reflect.Array:
		out := make([]interface{}, rv.Len())
		for i := range out {
			out[i] = canonValue(rv.Index(i).Interface())
		}
		return out
	case reflect.Ptr:
		if rv.IsNil() {
			return nil
		}
		// (an unresolved Go object, e.g. what the library hands back beyond its
		// depth limit: the type says what it is, its address is not an observation)
		return fmt.Sprintf("%T", v)
	case reflect.Struct, reflect.Map, reflect.Func, reflect.Chan, reflect.UnsafePointer:
		return fmt.Sprintf("%T", v)
	}
	return fmt.Sprintf("%T:%v", v, v)
}

// Canon renders a response canonically. Errors are sorted (the library's
// order is map-derived at several sites).
func Canon(resp interface{}) string {
	c := canonValue(resp)
	if m, _ := c.(map[string]interface{}); m != nil {
		if ea, _ := m["errors"].([]interface{}); len(ea) > 1 {
			strs := make([]string, len(ea))
			for i, e := range ea {
				b, _ := json.Marshal(e)
				strs[i] = string(b)
			}
			sort.Strings(strs)
			raw := make([]interface{}, len(strs))
			for i, s := range strs {
				raw[i] = json.RawMessage(s)
			}
			m["errors"] = raw
		}
	}
	b, err := json.Marshal(c)
	if err != nil {
		return fmt.Sprintf("<unmarshalable: %v: %#v>", err, resp)
	}
	return string(b)
}

// SafeResolve resolves a request, converting a panic into an observation.
func SafeResolve(root *ggql.Root, src, op string, vars map[string]interface{}) (out string) {
	defer func() {
		if r := recover(); r != nil {
			out = fmt.Sprintf("PANIC: %v", r)
		}
	}()
	return Canon(root.ResolveString(src, op, vars))
}

// Observation is what can be seen of a root through its public API.
type Observation struct {
	SDL           string
	Introspection string
	Roots         [3]string
	Requests      []string
	Responses     []string
}

func init() {
	// Input-object literals (defaults, directive arguments) are Go maps: without
	// Sort the library prints their keys in Go's random map order, which is not
	// a difference between two schemas.
	ggql.Sort = true
}

// Cheap is the part of an observation that costs microseconds.
func Cheap(root *ggql.Root) (out string) {
	defer func() {
		if r := recover(); r != nil {
			out = fmt.Sprintf("PANIC in SDL: %v", r)
		}
	}()
	// (the package-level switches are part of what a load must leave alone)
	return root.SDL(true, true) + fmt.Sprintf("\n# package switches: Relaxed=%v Sort=%v MaxResolveDepth=%d\n", ggql.Relaxed, ggql.Sort, ggql.MaxResolveDepth)
}

// givable tells whether a value can be written for an input type at all: an
// input object whose required fields lead back to itself cannot be given one,
// and a literal that stops half way would break several rules at once - which
// of them the library reports first is decided by Go's map iteration order.
func givable(t ggql.Type, seen map[string]bool) bool {
	switch tt := t.(type) {
	case *ggql.NonNull:
		return givable(tt.Base, seen)
	case *ggql.List:
		return givable(tt.Base, seen)
	case *ggql.Input:
		if seen[tt.Name()] {
			return false
		}
		seen[tt.Name()] = true
		defer delete(seen, tt.Name())
		for _, f := range tt.Fields() {
			if _, ok := f.Type.(*ggql.NonNull); ok && !givable(f.Type, seen) {
				return false
			}
		}
	}
	return true
}

// literalFor writes a value for an argument of type t (for an input object its
// required fields only); null when no value can be given at all.
func literalFor(t ggql.Type, depth int) string {
	if depth == 0 && !givable(t, map[string]bool{}) {
		return "null"
	}
	return literalRec(t, depth)
}

func literalRec(t ggql.Type, depth int) string {
	switch tt := t.(type) {
	case *ggql.NonNull:
		return literalRec(tt.Base, depth)
	case *ggql.List:
		return "[" + literalRec(tt.Base, depth) + "]"
	case *ggql.Enum:
		if vs := tt.Values(); len(vs) > 0 {
			return string(vs[0].Value)
		}
		return "null"
	case *ggql.Input:
		if depth > 8 {
			return "{}"
		}
		var parts []string
		for _, f := range tt.Fields() {
			if _, ok := f.Type.(*ggql.NonNull); ok {
				parts = append(parts, f.Name()+": "+literalRec(f.Type, depth+1))
			}
		}
		return "{" + strings.Join(parts, ", ") + "}"
	}
	switch t.Name() {
	case "Int", "Int64":
		return "1"
	case "Float", "Float64":
		return "1.5"
	case "Boolean":
		return "true"
	case "Time":
		// a value the scalar accepts: with two unacceptable fields in one input
		// object, which of them is reported is decided by Go's map iteration order
		return `"2021-02-03T04:05:06Z"`
	}
	return `"s"`
}

func selectionFor(t ggql.Type, depth int) string {
	t = ggql.BaseType(t)
	var fds []*ggql.FieldDef
	switch tt := t.(type) {
	case *ggql.Object:
		fds = tt.Fields()
	case *ggql.Interface:
		fds = tt.Fields()
	case *ggql.Union:
		return " { __typename }"
	default:
		return ""
	}
	var parts []string
	parts = append(parts, "__typename")
	nested := 0
	for _, fd := range fds {
		call := fd.Name()
		var args []string
		for _, a := range fd.Args() {
			if _, ok := a.Type.(*ggql.NonNull); ok {
				args = append(args, a.Name()+": "+literalFor(a.Type, 0))
			}
		}
		if len(args) > 0 {
			call += "(" + strings.Join(args, ", ") + ")"
		}
		bt := ggql.BaseType(fd.Type)
		switch bt.(type) {
		case *ggql.Object, *ggql.Interface, *ggql.Union:
			if depth >= 2 || nested >= 2 {
				continue
			}
			nested++
			call += selectionFor(fd.Type, depth+1)
		}
		parts = append(parts, call)
	}
	return " { " + strings.Join(parts, " ") + " }"
}

// RequestsFor derives the fixed request set from the root's own schema.
func RequestsFor(root *ggql.Root, roots [3]string) (reqs []string) {
	reqs = append(reqs, "{ __typename }")
	for i, kw := range []string{"query", "mutation"} {
		if roots[i] == "" {
			continue
		}
		t := root.GetType(roots[i])
		if t == nil {
			continue
		}
		sel := selectionFor(t, 0)
		if sel == "" {
			continue
		}
		reqs = append(reqs, kw+sel)
		// the composite selection expands the first two object-typed fields only:
		// every further one gets a request of its own
		if o, _ := t.(*ggql.Object); o != nil {
			nested := 0
			for _, fd := range o.Fields() {
				switch ggql.BaseType(fd.Type).(type) {
				case *ggql.Object, *ggql.Interface, *ggql.Union:
					nested++
					if nested <= 2 || nested > 10 {
						continue
					}
					call := fd.Name()
					var args []string
					for _, a := range fd.Args() {
						if _, ok := a.Type.(*ggql.NonNull); ok {
							args = append(args, a.Name()+": "+literalFor(a.Type, 0))
						}
					}
					if len(args) > 0 {
						call += "(" + strings.Join(args, ", ") + ")"
					}
					reqs = append(reqs, kw+" { "+call+selectionFor(fd.Type, 1)+" }")
				}
			}
		}
		// fields with input-object arguments that are optional: one request each
		// that passes the argument (its required fields only)
		if o, _ := t.(*ggql.Object); o != nil {
			extraIn := 0
			for _, fd := range o.Fields() {
				var args []string
				hasOptIn := false
				for _, a := range fd.Args() {
					_, nn := a.Type.(*ggql.NonNull)
					if _, isIn := ggql.BaseType(a.Type).(*ggql.Input); isIn && !nn {
						hasOptIn = true
						args = append(args, a.Name()+": "+literalFor(a.Type, 0))
					} else if nn {
						args = append(args, a.Name()+": "+literalFor(a.Type, 0))
					}
				}
				if !hasOptIn || extraIn >= 6 {
					continue
				}
				extraIn++
				sub := ""
				switch ggql.BaseType(fd.Type).(type) {
				case *ggql.Object, *ggql.Interface, *ggql.Union:
					sub = " { __typename }"
				}
				reqs = append(reqs, kw+" { "+fd.Name()+"("+strings.Join(args, ", ")+")"+sub+" }")
			}
		}
		// every value of every enum-typed argument is used as an input once (a value
		// that is printed and introspected but cannot be coerced in is a different schema)
		var fds []*ggql.FieldDef
		if o, _ := t.(*ggql.Object); o != nil {
			fds = o.Fields()
		}
		extra := 0
		for _, fd := range fds {
			for _, a := range fd.Args() {
				en, _ := ggql.BaseType(a.Type).(*ggql.Enum)
				if en == nil {
					continue
				}
				if _, isList := a.Type.(*ggql.List); isList {
					continue
				}
				if nn, _ := a.Type.(*ggql.NonNull); nn != nil {
					if _, isList := nn.Base.(*ggql.List); isList {
						continue
					}
				}
				for _, v := range en.Values() {
					if extra >= 12 {
						break
					}
					extra++
					var args []string
					for _, o := range fd.Args() {
						if o == a {
							args = append(args, o.Name()+": "+string(v.Value))
						} else if _, ok := o.Type.(*ggql.NonNull); ok {
							args = append(args, o.Name()+": "+literalFor(o.Type, 0))
						}
					}
					sub := ""
					switch ggql.BaseType(fd.Type).(type) {
					case *ggql.Object, *ggql.Interface, *ggql.Union:
						sub = " { __typename }"
					}
					reqs = append(reqs, kw+" { "+fd.Name()+"("+strings.Join(args, ", ")+")"+sub+" }")
				}
			}
		}
	}
	return
}

// Observe takes the full observation of a root.
func Observe(root *ggql.Root) *Observation {
	o := &Observation{SDL: Cheap(root)}
	func() {
		defer func() {
			if r := recover(); r != nil {
				o.Introspection = fmt.Sprintf("PANIC in introspection: %v", r)
			}
		}()
		resp := root.ResolveString(IntrospectionQuery, "", nil)
		o.Introspection = Canon(resp)
		if d, _ := resp["data"].(map[string]interface{}); d != nil {
			if s, _ := d["__schema"].(map[string]interface{}); s != nil {
				for i, k := range []string{"queryType", "mutationType", "subscriptionType"} {
					if m, _ := s[k].(map[string]interface{}); m != nil {
						o.Roots[i], _ = m["name"].(string)
					}
				}
			}
		}
	}()
	func() {
		defer func() {
			if r := recover(); r != nil {
				o.Requests = append(o.Requests, fmt.Sprintf("PANIC building requests: %v", r))
			}
		}()
		o.Requests = RequestsFor(root, o.Roots)
	}()
	sr, _ := root.AnyResolver.(*SynthResolver)
	for _, q := range o.Requests {
		if sr != nil {
			sr.ArgLog = sr.ArgLog[:0]
		}
		resp := SafeResolve(root, q, "", nil)
		if sr != nil && len(sr.ArgLog) > 0 {
			// the arguments as the resolvers received them (defaults of input
			// types filled in by the library), whatever the result type shows
			resp += " args=" + strings.Join(sr.ArgLog, ";")
		}
		o.Responses = append(o.Responses, resp)
	}
	return o
}

// Diff returns "" when two observations are equal, else a description of the
// first difference.
func (o *Observation) Diff(p *Observation) string {
	if o.SDL != p.SDL {
		return "printed schema differs: " + firstDiff(o.SDL, p.SDL)
	}
	if o.Roots != p.Roots {
		return fmt.Sprintf("operation root types differ: %v vs %v", o.Roots, p.Roots)
	}
	if o.Introspection != p.Introspection {
		return "introspection differs: " + firstDiff(o.Introspection, p.Introspection)
	}
	if len(o.Requests) != len(p.Requests) {
		return fmt.Sprintf("request sets differ: %q vs %q", o.Requests, p.Requests)
	}
	for i := range o.Requests {
		if o.Requests[i] != p.Requests[i] {
			return fmt.Sprintf("request %d differs: %q vs %q", i, o.Requests[i], p.Requests[i])
		}
		if o.Responses[i] != p.Responses[i] {
			return fmt.Sprintf("response to %q differs: %s", o.Requests[i], firstDiff(o.Responses[i], p.Responses[i]))
		}
	}
	return ""
}

func firstDiff(a, b string) string {
	i := 0
	for i < len(a) && i < len(b) && a[i] == b[i] {
		i++
	}
	lo := i - 60
	if lo < 0 {
		lo = 0
	}
	cut := func(s string) string {
		hi := i + 80
		if hi > len(s) {
			hi = len(s)
		}
		if lo > len(s) {
			return ""
		}
		return s[lo:hi]
	}
	return fmt.Sprintf("at byte %d: %q vs %q", i, cut(a), cut(b))
}

// CanonLite renders a response value canonically without fmt, encoding/json or
// anything else that goes through a sync.Pool or a shared cache: under the race
// detector those create happens-before edges between tasks (and sync.Pool drops
// items at random there), which would hide races and break replay.
func CanonLite(v interface{}) string {
	var b strings.Builder
	canonLite(&b, v)
	return b.String()
}

func canonLite(b *strings.Builder, v interface{}) {
	switch tv := v.(type) {
	case nil:
		b.WriteString("null")
	case map[string]interface{}:
		keys := make([]string, 0, len(tv))
		for k := range tv {
			keys = append(keys, k)
		}
		sort.Strings(keys)
		b.WriteByte('{')
		for i, k := range keys {
			if i > 0 {
				b.WriteByte(',')
			}
			b.WriteString(strconvQuote(k))
			b.WriteByte(':')
			canonLite(b, tv[k])
		}
		b.WriteByte('}')
	case []interface{}:
		b.WriteByte('[')
		for i, x := range tv {
			if i > 0 {
				b.WriteByte(',')
			}
			canonLite(b, x)
		}
		b.WriteByte(']')
	case string:
		b.WriteString(strconvQuote(tv))
	case ggql.Symbol:
		b.WriteString(strconvQuote("sym:" + string(tv)))
	case bool:
		if tv {
			b.WriteString("true")
		} else {
			b.WriteString("false")
		}
	case int:
		b.WriteString(strconvItoa(int64(tv)))
	case int32:
		b.WriteString(strconvItoa(int64(tv)))
	case int64:
		b.WriteString(strconvItoa(tv))
	case float64:
		b.WriteString(strconvFloat(tv))
	case float32:
		b.WriteString(strconvFloat(float64(tv)))
	case error:
		b.WriteString(strconvQuote("error:" + tv.Error()))
	case *ggql.Subscription:
		b.WriteString(`"<subscription>"`)
	default:
		rv := reflect.ValueOf(v)
		switch rv.Kind() {
		case reflect.Slice, reflect.Array:
			// (a typed Go slice is not what the library hands out for a list)
			b.WriteString("<" + rv.Type().String() + ">[")
			for i := 0; i < rv.Len(); i++ {
				if i > 0 {
					b.WriteByte(',')
				}
				canonLite(b, rv.Index(i).Interface())
			}
			b.WriteByte(']')
		case reflect.Map:
			b.WriteString(`"<map>"`)
		default:
			b.WriteString(strconvQuote("<" + rv.Type().String() + ">"))
		}
	}
}

// Describe renders the schema of a root through its public API in a canonical
// form: types sorted by name; with sortMembers also fields, enum values, union
// members, interfaces and input fields sorted by name (a member moved into an
// extend block lands at the end of its type, which is not a different schema).
// Directive uses are shown with the directive's declared argument defaults
// filled in, as the loader only fills them for directives it already knows.
func Describe(root *ggql.Root, sortMembers bool) (out string) {
	defer func() {
		if r := recover(); r != nil {
			out = fmt.Sprintf("PANIC in Describe: %v", r)
		}
	}()
	dirUses := func(dus []*ggql.DirectiveUse) string {
		var parts []string
		for _, du := range dus {
			if du == nil || du.Directive == nil {
				continue
			}
			args := map[string]string{}
			for k, av := range du.Args {
				if av != nil {
					args[k] = CanonLite(canonValue(av.Value))
				}
			}
			// (the directive of the use itself: a type may carry the same name)
			if d, _ := du.Directive.(*ggql.Directive); d != nil {
				var b strings.Builder
				_ = d.Write(&b, false)
				// declared defaults, read from the printed definition's argument list
				for _, a := range directiveArgDefaults(b.String()) {
					if _, has := args[a[0]]; !has {
						args[a[0]] = a[1]
					}
				}
			}
			keys := make([]string, 0, len(args))
			for k := range args {
				keys = append(keys, k)
			}
			sort.Strings(keys)
			s := "@" + du.Directive.Name() + "("
			for _, k := range keys {
				s += k + ":" + args[k] + ","
			}
			parts = append(parts, s+")")
		}
		sort.Strings(parts)
		return strings.Join(parts, " ")
	}
	fieldDefs := func(fds []*ggql.FieldDef) []string {
		var fs []string
		for _, fd := range fds {
			s := fd.Name() + "("
			for _, a := range fd.Args() {
				s += a.Name() + ":" + a.Type.Name() + "=" + CanonLite(canonValue(a.Default)) + " " + dirUses(a.Dirs) + ","
			}
			s += "):" + fd.Type.Name() + " " + dirUses(fd.Dirs) + " desc=" + strconv.Quote(fd.Desc)
			fs = append(fs, s)
		}
		if sortMembers {
			sort.Strings(fs)
		}
		return fs
	}
	var types []string
	for _, t := range root.Types() {
		if t.Core() {
			continue
		}
		var b strings.Builder
		fmt.Fprintf(&b, "%T %q desc=%q dirs=[%s]", t, t.Name(), t.Description(), dirUses(t.Directives()))
		switch tt := t.(type) {
		case *ggql.Schema:
			b.WriteString(" fields=" + strings.Join(fieldDefs(tt.Fields()), ";"))
		case *ggql.Object:
			var is []string
			for _, i := range tt.Interfaces {
				is = append(is, i.Name())
			}
			if sortMembers {
				sort.Strings(is)
			}
			b.WriteString(" implements=" + strings.Join(is, "&") + " fields=" + strings.Join(fieldDefs(tt.Fields()), ";"))
		case *ggql.Interface:
			b.WriteString(" fields=" + strings.Join(fieldDefs(tt.Fields()), ";"))
		case *ggql.Union:
			var ms []string
			for _, m := range tt.Members {
				ms = append(ms, m.Name())
			}
			if sortMembers {
				sort.Strings(ms)
			}
			b.WriteString(" members=" + strings.Join(ms, "|"))
		case *ggql.Enum:
			var vs []string
			for _, v := range tt.Values() {
				vs = append(vs, string(v.Value)+" "+dirUses(v.Directives)+" desc="+strconv.Quote(v.Description))
			}
			if sortMembers {
				sort.Strings(vs)
			}
			b.WriteString(" values=" + strings.Join(vs, ";"))
		case *ggql.Input:
			var fs []string
			for _, f := range tt.Fields() {
				fs = append(fs, f.Name()+":"+f.Type.Name()+"="+CanonLite(canonValue(f.Default))+" "+dirUses(f.Dirs))
			}
			if sortMembers {
				sort.Strings(fs)
			}
			b.WriteString(" fields=" + strings.Join(fs, ";"))
		}
		types = append(types, b.String())
	}
	sort.Strings(types)
	return strings.Join(types, "\n")
}

// directiveArgDefaults extracts (name, default) pairs from a printed directive
// definition "directive @d(x: Int = 1, y: String) on ...".
func directiveArgDefaults(def string) (out [][2]string) {
	i := strings.Index(def, "(")
	j := strings.LastIndex(def, ") on ")
	if i < 0 || j < i {
		return
	}
	// split the argument list at top-level commas (defaults can be lists, input
	// objects and strings that contain commas themselves)
	var parts []string
	depth, inStr, start := 0, false, i+1
	body := def[:j]
	for k := i + 1; k < len(body); k++ {
		c := body[k]
		switch {
		case inStr:
			if c == '\\' {
				k++
			} else if c == '"' {
				inStr = false
			}
		case c == '"':
			inStr = true
		case c == '[' || c == '{' || c == '(':
			depth++
		case c == ']' || c == '}' || c == ')':
			depth--
		case c == ',' && depth == 0:
			parts = append(parts, body[start:k])
			start = k + 1
		}
	}
	parts = append(parts, body[start:])
	for _, part := range parts {
		part = strings.TrimSpace(part)
		if at := strings.Index(part, " @"); at > 0 && !strings.Contains(part[:at], "\"") {
			part = part[:at] // directive uses on the argument definition
		}
		nv := strings.SplitN(part, " = ", 2)
		name := strings.TrimSpace(strings.SplitN(nv[0], ":", 2)[0])
		if name == "" {
			continue
		}
		if len(nv) != 2 {
			// no declared default: an argument that is left out is null
			out = append(out, [2]string{name, "null"})
			continue
		}
		v, err := ggql.ParseValueString(nv[1])
		if err != nil {
			continue
		}
		out = append(out, [2]string{name, CanonLite(canonValue(v))})
	}
	return
}

// Probe asks whether a member is reachable through the *lookup* structures of a
// type (the name->member maps that coercion, field resolution and duplicate
// checks use), which printing and introspection do not touch.
type Probe struct {
	Target string
	Member string
}

// ProbesFromText extracts (target, member) pairs from the extend blocks of a
// generated schema fragment.
func ProbesFromText(text string) (out []Probe) {
	lines := strings.Split(text, "\n")
	target := ""
	for _, ln := range lines {
		f := strings.Fields(ln)
		if len(f) >= 3 && f[0] == "extend" {
			target = strings.TrimRight(f[2], "{")
			if f[1] == "union" {
				// extend union U = A | B
				if i := strings.Index(ln, "="); i >= 0 {
					for _, m := range strings.Split(ln[i+1:], "|") {
						if m = strings.TrimSpace(m); m != "" {
							out = append(out, Probe{target, m})
						}
					}
				}
				target = ""
			}
			continue
		}
		if strings.HasPrefix(strings.TrimSpace(ln), "}") {
			target = ""
			continue
		}
		if target != "" && len(f) > 0 {
			name := f[0]
			if i := strings.IndexAny(name, "(:@"); i >= 0 {
				name = name[:i]
			}
			if name != "" {
				out = append(out, Probe{target, name})
			}
		}
	}
	return
}

// ProbeLookups evaluates the probes plus, for every type of the root, whether
// each listed member can also be looked up by name.
func ProbeLookups(root *ggql.Root, probes []Probe) (out string) {
	defer func() {
		if r := recover(); r != nil {
			out += fmt.Sprintf("PANIC in lookups: %v", r)
		}
	}()
	var b strings.Builder
	look := func(t ggql.Type, name string) string {
		switch tt := t.(type) {
		case *ggql.Object:
			return strconv.FormatBool(tt.GetField(name) != nil)
		case *ggql.Interface:
			return strconv.FormatBool(tt.GetField(name) != nil)
		case *ggql.Input:
			_, err := tt.CoerceIn(map[string]interface{}{name: nil})
			return strconv.FormatBool(err == nil || !strings.Contains(err.Error(), "is not a field"))
		case *ggql.Enum:
			_, err := tt.CoerceIn(ggql.Symbol(name))
			return strconv.FormatBool(err == nil)
		case *ggql.Union:
			for _, m := range tt.Members {
				if m.Name() == name {
					return "true"
				}
			}
			return "false"
		case nil:
			return "no such type"
		}
		return "n/a"
	}
	for _, p := range probes {
		b.WriteString(p.Target + "." + p.Member + "=" + look(root.GetType(p.Target), p.Member) + ";")
	}
	for _, t := range root.Types() {
		if t.Core() {
			continue
		}
		switch tt := t.(type) {
		case *ggql.Object:
			for _, fd := range tt.Fields() {
				if tt.GetField(fd.Name()) != fd {
					b.WriteString("listed but not found by name: " + t.Name() + "." + fd.Name() + ";")
				}
			}
		case *ggql.Interface:
			for _, fd := range tt.Fields() {
				if tt.GetField(fd.Name()) != fd {
					b.WriteString("listed but not found by name: " + t.Name() + "." + fd.Name() + ";")
				}
			}
		case *ggql.Input:
			for _, f := range tt.Fields() {
				if look(tt, f.Name()) != "true" {
					b.WriteString("listed but not found by name: " + t.Name() + "." + f.Name() + ";")
				}
			}
		case *ggql.Enum:
			for _, v := range tt.Values() {
				if look(tt, string(v.Value)) != "true" {
					b.WriteString("listed but not found by name: " + t.Name() + "." + string(v.Value) + ";")
				}
			}
		}
	}
	return b.String()
}
