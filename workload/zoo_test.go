package workload

import (
	"strings"
	"testing"

	"verif/sim/tape"
)

func TestZooSmoke(t *testing.T) {
	for _, strat := range []Strategy{StratReflect, StratInterface, StratAny} {
		errs, total, panics := 0, 0, 0
		for seed := uint64(1); seed <= 1500; seed++ {
			tp := tape.New(seed)
			q := GenZoo(tp)
			z, err := NewZoo(q, strat)
			if err != nil {
				t.Fatal(err)
			}
			req := GenRequest(tp, ReqOpt{Strat: strat, MultiOp: true, Introspection: true, VarInLiteral: strat != StratReflect, ShuffleArgs: true})
			out := SafeResolve(z.Root, req.Src, req.Op, req.Vars)
			total++
			if strings.HasPrefix(out, "PANIC") {
				panics++
				if panics < 4 {
					t.Logf("%s PANIC seed %d: %s\n%s\nop=%q vars=%v", strat, seed, out, req.Src, req.Op, req.Vars)
				}
			}
			if strings.Contains(out, `"errors"`) {
				errs++
				if errs < 3 {
					t.Logf("%s seed %d: %s\n%s\nop=%q vars=%v", strat, seed, out, req.Src, req.Op, req.Vars)
				}
			}
		}
		t.Logf("%s: %d requests, %d with errors, %d panics", strat, total, errs, panics)
	}
}
