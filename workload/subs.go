package workload

import (
	"errors"
	"reflect"
	"strconv"
	"strings"
	"time"

	"github.com/uhn/ggql/pkg/ggql"
)

// SubSDL is the schema of the subscription workloads (interface-resolver root:
// a subscription can only be registered from a Resolver.Resolve call, which
// receives the *Field that NewSubscription needs).
const SubSDL = subSDLHead + `
type Subscription {` + subSDLFields + `
}
`

// SubSDLNamed is the same schema with the operation types named through a
// schema block (the subscription type is not called Subscription).
const SubSDLNamed = subSDLHead + `
type Feed {` + subSDLFields + `
}
type Subscription {
  watch(topic: String, sid: Int!): Int
  other: String
}
schema {
  query: Query
  mutation: Mutation
  subscription: Feed
}
`

const subSDLFields = `
  watch(topic: String, sid: Int!): Event!
  watchAny(topic: String, sid: Int!): Happening
  watchBatch(topic: String, sid: Int!): [Event!]!
  tick(topic: String, sid: Int!): Time
  level(topic: String, sid: Int!): Level
  nums(topic: String, sid: Int!): [Int]`

const subSDLHead = `
type Query {
  ping: String
}
type Mutation {
  post(topic: String!, n: Int!): Int
}
enum Level {
  LOW
  HIGH
}
union Happening = Event | Notice
type Notice {
  id: Int
  text: String
}
type Event {
  id: Int
  msg: String
  tag: String
  nested: Event
  near(r: Span): Int
}
input Span {
  lo: Int = 0
  hi: Int = 9
  tags: [String] = ["x"]
}
`

// SubEnv receives the harness-side events of a subscription workload. In
// scheduled runs every call is a scheduling point and the event lands in the
// scheduler's global log; in sequential runs it is a plain append.
type SubEnv interface {
	// Event logs kind/detail and returns the global sequence number.
	Event(kind string, detail string) uint64
}

// Selection variants a subscriber may ask for, with the expected message for
// an event (computed independently of ggql).
var SubSelections = []struct {
	Sel    string
	Expect func(id int) string
	// Frag holds fragment definitions the selection refers to (appended to the
	// subscription document). Two entries deliberately define a fragment of the
	// same name differently: every subscriber has its own document.
	Frag string
}{
	{"{ id msg }", func(id int) string { return `{"id":` + strconv.Itoa(id) + `,"msg":"m` + strconv.Itoa(id) + `"}` }, ""},
	{"{ id }", func(id int) string { return `{"id":` + strconv.Itoa(id) + `}` }, ""},
	{"{ msg tag }", func(id int) string { return `{"msg":"m` + strconv.Itoa(id) + `","tag":"t` + strconv.Itoa(id) + `"}` }, ""},
	{"{ x: id y: tag }", func(id int) string { return `{"x":` + strconv.Itoa(id) + `,"y":"t` + strconv.Itoa(id) + `"}` }, ""},
	{"{ id nested { id msg } }", func(id int) string {
		n := strconv.Itoa(id + 1000)
		return `{"id":` + strconv.Itoa(id) + `,"nested":{"id":` + n + `,"msg":"m` + n + `"}}`
	}, ""},
	{"{ __typename id }", func(id int) string { return `{"__typename":"Event","id":` + strconv.Itoa(id) + `}` }, ""},
	{"{ ...F }", func(id int) string { return `{"id":` + strconv.Itoa(id) + `,"msg":"m` + strconv.Itoa(id) + `"}` }, "fragment F on Event { id msg }"},
	{"{ ...F }", func(id int) string { return `{"tag":"t` + strconv.Itoa(id) + `"}` }, "fragment F on Event { tag }"},
	{"{ ... on Event { id } ... { tag } }", func(id int) string { return `{"id":` + strconv.Itoa(id) + `,"tag":"t` + strconv.Itoa(id) + `"}` }, ""},
	{"{ id @skip(if: true) msg @include(if: true) }", func(id int) string { return `{"msg":"m` + strconv.Itoa(id) + `"}` }, ""},
	// directives on the spread (not on the fragment definition) decide
	{"{ id ...W @skip(if: true) }", func(id int) string { return `{"id":` + strconv.Itoa(id) + `}` }, "fragment W on Event { msg tag }"},
	{"{ ...H @include(if: false) tag ...G @include(if: true) }", func(id int) string { return `{"id":` + strconv.Itoa(id) + `,"tag":"t` + strconv.Itoa(id) + `"}` }, "fragment H on Event { msg }\nfragment G on Event { id }"},
}

// SubUnionSelections are the selections of subscribers of the union-typed
// subscription field, with the expected message per member.
var SubUnionSelections = []struct {
	Sel    string
	Event  func(id int) string
	Notice func(id int) string
}{
	{"{ __typename ... on Event { id } ... on Notice { text } }",
		func(id int) string { return `{"__typename":"Event","id":` + strconv.Itoa(id) + `}` },
		func(id int) string { return `{"__typename":"Notice","text":"n` + strconv.Itoa(id) + `"}` }},
	{"{ ... on Notice { id text } ... on Event { msg } }",
		func(id int) string { return `{"msg":"m` + strconv.Itoa(id) + `"}` },
		func(id int) string { return `{"id":` + strconv.Itoa(id) + `,"text":"n` + strconv.Itoa(id) + `"}` }},
	{"{ __typename }",
		func(id int) string { return `{"__typename":"Event"}` },
		func(id int) string { return `{"__typename":"Notice"}` }},
}

// Notice is the second member of the union of events.
type Notice struct {
	ID   int
	Text string
}

// NoticeEvent tells whether event n of a union world is a Notice.
func NoticeEvent(n int) bool { return n%3 == 1 }

// Expect is the message subscriber sb must receive for event n in this world;
// resolveErr tells whether applying the selection hits a field that does not
// resolve.
func (w *SubWorld) Expect(sb *SimSub, n int) (msg string, resolveErr bool) {
	if w.NilEvents && NilEvent(n) {
		// no event value at all: the selection set applied to nothing is null,
		// and the subscriber is still told
		return "null", false
	}
	bad := w.BadEvents && BadEvent(n)
	if w.Leaf != 0 {
		// a leaf-typed subscription field: no selection set, the message is the
		// event coerced to the declared type
		if bad {
			return "null", true
		}
		switch w.Leaf {
		case 1:
			return strconv.Quote(time.Unix(1600000000+int64(n), 0).UTC().Format(time.RFC3339Nano)), false
		case 2:
			return strconv.Quote(leafLevel(n)), false
		default:
			return "[" + strconv.Itoa(n) + "," + strconv.Itoa(n+1) + "]", false
		}
	}
	if w.ListEvents {
		// a batch of two events: the selection is applied to every member
		m1, e1 := ExpectFor(sb.SelIndex, n, bad)
		m2, _ := ExpectFor(sb.SelIndex, n+500, false)
		return "[" + m1 + "," + m2 + "]", e1
	}
	if sb.Near && !w.UnionEvents && w.ResolverEvents {
		return `{"id":` + strconv.Itoa(n) + `,"near":309}`, false
	}
	if !w.UnionEvents {
		return ExpectFor(sb.SelIndex, n, bad)
	}
	us := SubUnionSelections[sb.SelIndex%len(SubUnionSelections)]
	if NoticeEvent(n) {
		return us.Notice(n), false
	}
	msg = us.Event(n)
	good := `"msg":"m` + strconv.Itoa(n) + `"`
	if bad && strings.Contains(msg, good) {
		return strings.Replace(msg, good, `"msg":null`, 1), true
	}
	return msg, false
}

func leafLevel(n int) string {
	if n%2 == 0 {
		return "HIGH"
	}
	return "LOW"
}

// leafEvent is event n of a world with a leaf-typed subscription field, as the
// Go value an application would publish.
func (w *SubWorld) leafEvent(n int) interface{} {
	if w.BadEvents && BadEvent(n) {
		return unprintable{n}
	}
	switch w.Leaf {
	case 1:
		return time.Unix(1600000000+int64(n), 0).In(time.FixedZone("east", 3600))
	case 2:
		if n%4 < 2 {
			return ggql.Symbol(leafLevel(n))
		}
		return leafLevel(n)
	}
	return []int{n, n + 1}
}

var leafFields = []string{"", "tick", "level", "nums"}

// Event is the reflection flavour of a published event.
type Event struct {
	ID     int
	Msg    interface{}
	Tag    string
	Nested *Event
}

// NewEvent builds the reflection flavour.
func NewEvent(id int) *Event {
	return &Event{ID: id, Msg: "m" + strconv.Itoa(id), Tag: "t" + strconv.Itoa(id),
		Nested: &Event{ID: id + 1000, Msg: "m" + strconv.Itoa(id+1000), Tag: "t" + strconv.Itoa(id+1000)}}
}

// NilEvent tells whether event n of a world with NilEvents is published
// without a value (an untyped nil or a nil pointer).
func NilEvent(n int) bool { return n%7 == 5 }

// BadEvent tells whether event n is one whose msg field cannot be resolved
// (worlds with BadEvents only): applying a subscriber's selection to it yields
// null for msg plus an error, which is not a failed delivery.
func BadEvent(n int) bool { return n%5 == 3 }

type unprintable struct{ X int }

// ExpectFor is the message subscriber selection selIndex must receive for
// event id; resolveErr tells whether applying the selection hits the field
// that cannot be resolved.
func ExpectFor(selIndex, id int, bad bool) (msg string, resolveErr bool) {
	msg = SubSelections[selIndex].Expect(id)
	if !bad {
		return msg, false
	}
	good := `"msg":"m` + strconv.Itoa(id) + `"`
	if !strings.Contains(msg, good) {
		return msg, false
	}
	return strings.Replace(msg, good, `"msg":null`, 1), true
}

// EvRes is the Resolver flavour of a published event.
type EvRes struct {
	ID    int
	Depth int
	Bad   bool
}

// Resolve implements ggql.Resolver.
func (e *EvRes) Resolve(field *ggql.Field, args map[string]interface{}) (interface{}, error) {
	switch field.Name {
	case "id":
		return e.ID, nil
	case "msg":
		if e.Bad {
			return nil, errors.New("msg of event " + strconv.Itoa(e.ID) + " is not available")
		}
		return "m" + strconv.Itoa(e.ID), nil
	case "tag":
		if field.Context != nil {
			// (what the caller put on the parsed subscription field for its
			// resolvers: part of the answer, so that its loss shows)
			return "t" + strconv.Itoa(e.ID) + "@" + CanonLite(field.Context), nil
		}
		return "t" + strconv.Itoa(e.ID), nil
	case "near":
		// lo * 100 + hi of the argument as the library hands it over (defaults
		// of the input type filled in)
		r, _ := args["r"].(map[string]interface{})
		return toInt(r["lo"])*100 + toInt(r["hi"]), nil
	case "nested":
		if e.Depth > 0 {
			return nil, nil
		}
		return &EvRes{ID: e.ID + 1000, Depth: e.Depth + 1}, nil
	}
	return nil, errors.New("no such field " + field.Name)
}

// SimSub is a simulated subscriber ("the network" of the registry).
type SimSub struct {
	ID       int
	Topic    string // "" = wildcard: matches every id
	SelIndex int
	// FailFrom: the FailFrom-th Send (1-based) fails; with Dropped every later
	// Send fails too (connection dropped), otherwise only that one (transient).
	FailFrom int
	Dropped  bool
	// Alias / Named / UseVar vary the shape of the subscription request.
	Alias  bool
	Named  bool
	UseVar bool
	// Wrap puts the subscription field inside inline fragments (1: without a
	// condition, 2: on Subscription, 3: nested with a directive).
	Wrap int

	// Args is the argument map the subscription resolver received when this
	// subscriber was registered (kept, as NewSubscription keeps it): it must
	// stay what it was.
	Args map[string]interface{}

	// TimeoutErr: failing deliveries return an error shaped like a network
	// timeout (Timeout() == true).
	TimeoutErr bool
	// Near: the selection is { id near(r: $r) } - a field of the event that
	// takes an input-object argument from a variable; NearVars is the variables
	// map the caller passes (its own, kept and used again for its next request).
	Near     bool
	NearVars map[string]interface{}
	// Marks: the subscriber writes a receipt into the message it is sent.
	Marks bool
	// EmptyGroupErr: failing deliveries return ggql.Errors{} - not nil, but
	// without members.
	EmptyGroupErr bool
	// ByValue: the subscription resolver hands the subscriber to the library by
	// value, wrapped in a struct that can neither be compared nor hashed.
	ByValue bool

	// Companion adds a second root field to the subscription request whose
	// resolver refuses (unknown subscriber): the request as a whole fails and
	// must not register anything.
	Companion bool

	env   SubEnv
	sends int
	// kept is the last value handed to Send (a queueing subscriber keeps it
	// beyond the call) and what it looked like then.
	kept      interface{}
	keptCanon string
}

// ErrSend is returned by failing deliveries.
var ErrSend = errors.New("simsub: delivery failed")

// errSendTimeout is a failed delivery shaped like a network timeout (what a
// write deadline on a connection produces): still a failed delivery.
type errSendTimeout struct{}

func (errSendTimeout) Error() string   { return "simsub: delivery failed: i/o timeout" }
func (errSendTimeout) Timeout() bool   { return true }
func (errSendTimeout) Temporary() bool { return true }

// ErrSendTimeout is the timeout-shaped delivery failure.
var ErrSendTimeout error = errSendTimeout{}

// ValSub is a subscriber handed to the library by value: a struct that cannot
// be a map key or be compared (it has a slice field), whose methods have value
// receivers and delegate to the simulated subscriber.
type ValSub struct {
	S   *SimSub
	Buf []byte
}

// Match implements ggql.Subscriber.
func (v ValSub) Match(eventID string) bool { return v.S.Match(eventID) }

// Send implements ggql.Subscriber.
func (v ValSub) Send(value interface{}) error { return v.S.Send(value) }

// Unsubscribe implements ggql.Subscriber.
func (v ValSub) Unsubscribe() { v.S.Unsubscribe() }

// Match implements ggql.Subscriber.
func (s *SimSub) Match(eventID string) bool {
	if strings.HasPrefix(eventID, "~") {
		// an id of the application's own that no subscriber listens to (used by
		// re-entrant calls from a subscription resolver)
		s.env.Event("Probe", strconv.Itoa(s.ID)+"|"+eventID)
		return false
	}
	m := s.Topic == "" || s.Topic == eventID
	if s.Args != nil && toInt(s.Args["sid"]) != s.ID {
		// the argument map handed to the resolver at registration was changed
		// behind the subscriber's back
		s.env.Event("ArgsChanged", strconv.Itoa(s.ID)+"|sid is now "+CanonLite(s.Args["sid"]))
	}
	s.env.Event("Match", strconv.Itoa(s.ID)+"|"+eventID+"|"+strconv.FormatBool(m))
	return m
}

// Send implements ggql.Subscriber.
func (s *SimSub) Send(value interface{}) error {
	s.checkKept()
	fail := s.countSend()
	res := "ok"
	if fail {
		res = "fail"
	}
	s.env.Event("Send", strconv.Itoa(s.ID)+"|"+res+"|"+canonSent(value))
	// the delivery takes time: the end of the call is an event of its own, so
	// that a second call into the same subscriber before it shows as an overlap
	s.kept, s.keptCanon = value, CanonLite(value)
	if m, ok := value.(map[string]interface{}); ok && s.Marks {
		// the message is the subscriber's own: it may write into it (a sequence
		// number, a receipt); nobody else may ever see that
		m["_receipt"] = s.ID
		s.keptCanon = CanonLite(value)
	}
	s.env.Event("SendEnd", strconv.Itoa(s.ID))
	if fail {
		if s.TimeoutErr {
			return ErrSendTimeout
		}
		if s.EmptyGroupErr {
			// a non-nil error that is an empty group (a subscriber that collects
			// what went wrong on its connection and returns the collection)
			return ggql.Errors{}
		}
		return ErrSend
	}
	return nil
}

// canonSent renders a delivered value; a nil pointer (an event published as a
// typed nil comes through as it is) is null on the wire, as encoding/json has it.
func canonSent(v interface{}) string {
	if rv := reflect.ValueOf(v); rv.IsValid() && rv.Kind() == reflect.Ptr && rv.IsNil() {
		return "null"
	}
	return CanonLite(v)
}

// checkKept reports when the value of the previous delivery, which the
// subscriber still holds, no longer is what was delivered.
//
//go:norace
func (s *SimSub) checkKept() {
	if s.kept != nil {
		if now := CanonLite(s.kept); now != s.keptCanon {
			s.env.Event("ValueChanged", strconv.Itoa(s.ID)+"|delivered "+s.keptCanon+", now "+now)
			s.keptCanon = now
		}
	}
}

// CheckKept is checkKept for the harness (after an operation).
func (s *SimSub) CheckKept() { s.checkKept() }

// countSend keeps the per-subscriber delivery counter. It is harness state that
// several publishers touch; execution is serialised by the scheduler, and the
// function is kept invisible to the race detector so that a library that calls
// Send without its lock is judged by the registry oracles, not by a report
// about harness memory.
//
//go:norace
func (s *SimSub) countSend() bool {
	s.sends++
	return s.FailFrom > 0 && (s.sends == s.FailFrom || (s.Dropped && s.sends > s.FailFrom))
}

// Unsubscribe implements ggql.Subscriber (the clean-up call-back).
func (s *SimSub) Unsubscribe() {
	s.env.Event("Cleanup", strconv.Itoa(s.ID))
}

// SubWorld is the data graph of the subscription workloads.
type SubWorld struct {
	Env  SubEnv
	Root *ggql.Root
	// Subs are created before the run and only read during it.
	Subs map[int]*SimSub
	// ResolverEvents chooses the event flavour published through the mutation.
	ResolverEvents bool
	// UnionEvents: every subscriber subscribes to the union-typed field and the
	// published events are of two Go types (members of the union), reflection
	// flavour only.
	UnionEvents bool
	// ListEvents: every subscriber subscribes to the list-typed field and every
	// published event is a batch (a list of two events).
	ListEvents bool
	// Leaf (1 Time, 2 enum, 3 list of Int): every subscriber subscribes to a
	// leaf-typed subscription field (no selection set); the events are Go values
	// that output coercion changes (time.Time, ggql.Symbol, []int).
	Leaf int
	// ResolverReenters (1 Unsubscribe, 2 AddEvent): the subscription resolver
	// calls the registry itself, with an id nobody listens to, before it answers.
	ResolverReenters int
	// ReuseSub: the subscription resolver keeps the *ggql.Subscription it made
	// for a subscriber and hands the same object back when that subscriber
	// subscribes again.
	ReuseSub bool
	keptSubs map[int]*ggql.Subscription
	// NilEvents: the events with NilEvent(n) are published as nil.
	NilEvents bool
	// BadEvents makes the msg field of the events with BadEvent(n) fail to
	// resolve (resolver error / value that cannot be coerced to String).
	BadEvents bool
}

type subQuery struct{}

func (subQuery) Resolve(field *ggql.Field, args map[string]interface{}) (interface{}, error) {
	return "pong", nil
}

type subMutation struct{ w *SubWorld }

func toInt(v interface{}) int {
	switch x := v.(type) {
	case int:
		return x
	case int32:
		return int(x)
	case int64:
		return int(x)
	case float64:
		return int(x)
	}
	return -1
}

func (m subMutation) Resolve(field *ggql.Field, args map[string]interface{}) (interface{}, error) {
	topic, _ := args["topic"].(string)
	n := toInt(args["n"])
	cnt, err := m.w.Publish(topic, n)
	return cnt, err
}

type subSubscription struct{ w *SubWorld }

func (s subSubscription) Resolve(field *ggql.Field, args map[string]interface{}) (interface{}, error) {
	sid := toInt(args["sid"])
	sub := s.w.Subs[sid]
	if sub == nil {
		if sid == 98 {
			// refused with a group of errors
			return nil, ggql.Errors{errors.New("unknown subscriber 98"), errors.New("and no room for it")}
		}
		return nil, errors.New("unknown subscriber " + strconv.Itoa(sid))
	}
	sub.Args = args
	switch s.w.ResolverReenters {
	case 1:
		// the subscription resolver uses the registry itself before it answers
		// (a connection that subscribes again drops what it had under an id of
		// its own; nobody listens to this id)
		s.w.Root.Unsubscribe("~conn" + strconv.Itoa(sid))
	case 2:
		_, _ = s.w.Root.AddEvent("~joined", nil)
	}
	var subscriber ggql.Subscriber = sub
	if sub.ByValue {
		subscriber = ValSub{S: sub, Buf: make([]byte, 0, 8)}
	}
	if s.w.ReuseSub {
		if ks := s.w.keptSubs[sid]; ks != nil {
			return ks, nil
		}
		ks := ggql.NewSubscription(subscriber, field, args)
		if s.w.keptSubs == nil {
			s.w.keptSubs = map[int]*ggql.Subscription{}
		}
		s.w.keptSubs[sid] = ks
		return ks, nil
	}
	return ggql.NewSubscription(subscriber, field, args), nil
}

// Resolve implements ggql.Resolver for the schema level.
func (w *SubWorld) Resolve(field *ggql.Field, args map[string]interface{}) (interface{}, error) {
	switch field.Name {
	case "query":
		return subQuery{}, nil
	case "mutation":
		return subMutation{w}, nil
	case "subscription":
		return subSubscription{w}, nil
	}
	return nil, errors.New("no such root field " + field.Name)
}

// NewSubWorld builds a root over the subscription schema.
func NewSubWorld(env SubEnv) (*SubWorld, error) { return NewSubWorldSDL(env, SubSDL) }

// NewSubWorldSDL builds a root over a variant of the subscription schema.
func NewSubWorldSDL(env SubEnv, sdl string) (*SubWorld, error) {
	w := &SubWorld{Env: env, Subs: map[int]*SimSub{}}
	w.Root = ggql.NewRoot(w)
	if err := w.Root.ParseString(sdl); err != nil {
		return nil, err
	}
	return w, nil
}

// AddSub creates a subscriber (before the run).
func (w *SubWorld) AddSub(s *SimSub) {
	s.env = w.Env
	w.Subs[s.ID] = s
}

// Subscribe issues the subscription request of subscriber sid and returns the
// canonical response.
func (w *SubWorld) Subscribe(sid int) string {
	s := w.Subs[sid]
	topic := "null"
	if s.Topic != "" {
		topic = strconv.Quote(s.Topic)
	}
	field := "watch"
	if s.Alias {
		field = "w: watch"
	}
	op := "subscription"
	if s.Named {
		op = "subscription Sub" + strconv.Itoa(sid)
	}
	var vars map[string]interface{}
	sidText := strconv.Itoa(sid)
	if s.UseVar {
		// the subscriber is identified through a variable: the subscription fields of
		// different subscribers are then textually identical
		if !s.Named {
			op = "subscription S"
		}
		op += "($sid: Int!)"
		sidText = "$sid"
		vars = map[string]interface{}{"sid": sid}
	}
	sel, frag := SubSelections[s.SelIndex].Sel, SubSelections[s.SelIndex].Frag
	if w.UnionEvents {
		field = strings.Replace(field, "watch", "watchAny", 1)
		sel, frag = SubUnionSelections[s.SelIndex%len(SubUnionSelections)].Sel, ""
	}
	if w.ListEvents {
		field = strings.Replace(field, "watch", "watchBatch", 1)
	}
	if w.Leaf != 0 {
		field = strings.Replace(field, "watch", leafFields[w.Leaf], 1)
		sel, frag = "", ""
	}
	if s.Near && !w.UnionEvents && !w.ListEvents && w.Leaf == 0 && w.ResolverEvents {
		// always through variables: $sid and $r, in the caller's own map
		if !strings.Contains(op, "(") {
			if !s.Named {
				op = "subscription S"
			}
			op += "($sid: Int!, $r: Span)"
		} else {
			op = strings.Replace(op, "($sid: Int!)", "($sid: Int!, $r: Span)", 1)
		}
		sidText = "$sid"
		if s.NearVars == nil {
			s.NearVars = map[string]interface{}{}
		}
		vars = s.NearVars
		vars["sid"] = sid
		if _, has := vars["r"]; !has {
			vars["r"] = map[string]interface{}{"lo": 3}
		}
		sel, frag = "{ id near(r: $r) }", ""
	}
	body := field + "(topic: " + topic + ", sid: " + sidText + ") " + sel
	switch s.Wrap {
	case 1:
		body = "... { " + body + " }"
	case 2:
		tn := "Subscription"
		if w.Root.GetType("Feed") != nil {
			tn = "Feed" // the schema names its subscription type through a schema block
		}
		body = "... on " + tn + " { " + body + " }"
	case 3:
		body = "... @include(if: true) { ... { " + body + " } }"
	}
	if s.Companion {
		if w.UnionEvents {
			body += " refused: watchAny(topic: \"zz\", sid: 99) { __typename }"
		} else {
			if w.Leaf != 0 {
				body += " refused: " + leafFields[w.Leaf] + "(topic: \"zz\", sid: 99)"
			} else {
				body += " refused: " + strings.TrimPrefix(field, "w: ") + "(topic: \"zz\", sid: 99) { id }"
			}
		}
	}
	req := op + " { " + body + " }"
	if frag != "" {
		req += "\n" + frag
	}
	return CanonLite(w.Root.ResolveString(req, "", vars))
}

// SubscriptionDoc returns the request text of subscriber sid (always with the
// subscriber id passed through the variable $sid, so that one parsed document
// can register several subscribers) and the operation name.
func (w *SubWorld) SubscriptionDoc(selIndex int, topic string) (src, op string) {
	tp := "null"
	if topic != "" {
		tp = strconv.Quote(topic)
	}
	fname := "watch"
	if w.ListEvents {
		fname = "watchBatch"
	}
	if w.Leaf != 0 {
		return "subscription S($sid: Int!) { " + leafFields[w.Leaf] + "(topic: " + tp + ", sid: $sid) }", "S"
	}
	src = "subscription S($sid: Int!) { " + fname + "(topic: " + tp + ", sid: $sid) " + SubSelections[selIndex].Sel + " }"
	if f := SubSelections[selIndex].Frag; f != "" {
		src += "\n" + f
	}
	return src, "S"
}

// SubscribeExe registers subscriber sid through a parsed subscription document
// (SubscriptionDoc) that the caller resolves once per subscriber.
func (w *SubWorld) SubscribeExe(exe *ggql.Executable, op string, sid int) string {
	res, err := w.Root.ResolveExecutable(exe, op, map[string]interface{}{"sid": sid})
	m := map[string]interface{}{"data": nil}
	if res != nil {
		m = map[string]interface{}{}
		for k, v := range res {
			m[k] = v
		}
	}
	if err != nil {
		m["errors"] = ggql.FormErrorsResult(err)
	}
	return CanonLite(m)
}

// Publish publishes event n on topic.
func (w *SubWorld) Publish(topic string, n int) (int, error) {
	if w.NilEvents && NilEvent(n) {
		if n%2 == 0 {
			return w.Root.AddEvent(topic, (*Event)(nil))
		}
		return w.Root.AddEvent(topic, nil)
	}
	var ev interface{}
	bad := w.BadEvents && BadEvent(n)
	if w.Leaf != 0 {
		return w.Root.AddEvent(topic, w.leafEvent(n))
	}
	if w.UnionEvents {
		if NoticeEvent(n) {
			return w.Root.AddEvent(topic, &Notice{ID: n, Text: "n" + strconv.Itoa(n)})
		}
		e := NewEvent(n)
		if bad {
			e.Msg = unprintable{n}
		}
		return w.Root.AddEvent(topic, e)
	}
	if w.ResolverEvents {
		ev = &EvRes{ID: n, Bad: bad}
		if w.ListEvents {
			ev = []interface{}{ev, &EvRes{ID: n + 500}}
		}
	} else {
		e := NewEvent(n)
		if bad {
			e.Msg = unprintable{n}
		}
		ev = e
		if w.ListEvents {
			ev = []interface{}{e, NewEvent(n + 500)}
		}
	}
	return w.Root.AddEvent(topic, ev)
}

// PublishViaMutation publishes from inside a mutation resolver.
func (w *SubWorld) PublishViaMutation(topic string, n int) string {
	req := "mutation { post(topic: " + strconv.Quote(topic) + ", n: " + strconv.Itoa(n) + ") }"
	return CanonLite(w.Root.ResolveString(req, "", nil))
}

// SplitDetail splits an event detail string.
func SplitDetail(d string, n int) []string { return strings.SplitN(d, "|", n) }
