package workload

import (
	"sort"
	"strconv"
	"strings"

	"verif/sim/tape"
)

type zf struct {
	name string
	typ  string // "" = leaf, else object/interface/union type name
	args string // "", "keeper", "echo", "motto", "find", "rename"
}

var zooTypes = map[string][]zf{
	"Query": {{"title", "", ""}, {"count", "", ""}, {"ratio", "", ""}, {"flag", "", ""}, {"size", "", ""},
		{"keeper", "Keeper", "keeper"}, {"keepers", "Keeper", ""}, {"animals", "Animal", ""}, {"things", "Thing", ""},
		{"grid", "Cell", ""}, {"echo", "", "echo"}, {"tags", "", ""}, {"nums", "", ""}, {"matrix", "", ""}, {"codes", "", ""}, {"stash", "", "stash"}, {"find", "Keeper", "find"}, {"boss", "Keeper", ""},
		{"ghost", "", ""}, {"relay", "", "relay"}, {"pick", "Thing", "pick"}, {"join", "", "join"}, {"span", "", "span"}, {"chief", "Keeper", ""}, {"blob", "", "blob"}, {"tagged", "", "tagged"}, {"label", "Tag", ""}, {"labelRef", "TagRef", ""}, {"labelAlso", "Tag", ""}, {"odd", "Thing", ""}, {"stamps", "", ""}, {"levels", "", ""}, {"vari", "", "vari"}, {"triple", "", ""}, {"sized", "", "sized"}},
	"Keeper": {{"name", "", ""}, {"age", "", ""}, {"pets", "Animal", ""}, {"friend", "Keeper", ""}, {"cells", "Cell", ""},
		{"motto", "", "motto"}, {"rank", "", ""}, {"dogs", "Dog", ""}, {"ghost", "", ""}, {"nick", "", "nick"}, {"code", "", "code"}},
	"Dog":      {{"name", "", ""}, {"legs", "", ""}, {"barks", "", ""}, {"owner", "Keeper", ""}, {"code", "", ""}, {"call", "", "call"}},
	"Bird":     {{"name", "", ""}, {"legs", "", ""}, {"wingspan", "", ""}, {"code", "", ""}, {"call", "", "call"}},
	"Cell":     {{"x", "", ""}, {"y", "", ""}, {"label", "", ""}, {"code", "", ""}},
	"Animal":   {{"name", "", ""}, {"legs", "", ""}, {"call", "", "call"}},
	"Mutation": {{"rename", "Keeper", "rename"}},
}

var zooUnion = map[string][]string{"Thing": {"Dog", "Bird", "Keeper", "Cell"}}

// Request is a generated executable document.
type Request struct {
	Src  string
	Op   string
	Vars map[string]interface{}
	// Ops lists the operation names of the document.
	Ops []string
	// VarTypes maps every variable of the document to its declared type.
	VarTypes map[string]string
	// BadDefault marks the variables declared with a default that does not fit.
	BadDefault map[string]bool
}

// DrawVars draws a fresh variable map for the document (values vary from call
// to call; some variables are left out so that defaults apply).
func (r *Request) DrawVars(t *tape.Tape) map[string]interface{} {
	out := map[string]interface{}{}
	names := make([]string, 0, len(r.VarTypes))
	for n := range r.VarTypes {
		names = append(names, n)
	}
	sort.Strings(names)
	for _, n := range names {
		if r.BadDefault[n] && t.Bool(1, 2) {
			continue
		}
		if t.Bool(1, 4) {
			if _, has := r.Vars[n]; !has {
				continue // has a default: leave it out
			}
		}
		if (n == "cp" || n == "bw" || n == "ps") && t.Bool(1, 3) {
			continue // nullable and without a value in this call
		}
		switch strings.TrimSuffix(r.VarTypes[n], "!") {
		case "String":
			if n == "kn" || n == "nm" {
				out[n] = "k" + strconv.Itoa(t.Draw(5))
			} else {
				out[n] = "v" + strconv.Itoa(t.Draw(9))
			}
		case "Int":
			out[n] = 20 + t.Draw(50)
		case "Boolean":
			out[n] = t.Bool(1, 2)
		case "[Range]":
			out[n] = []interface{}{map[string]interface{}{"hi": t.Draw(9)}, map[string]interface{}{}}
		case "Range":
			switch t.Draw(3) {
			case 0:
				out[n] = map[string]interface{}{}
			case 1:
				out[n] = map[string]interface{}{"lo": t.Draw(9), "parts": []interface{}{map[string]interface{}{}, map[string]interface{}{"inner": map[string]interface{}{}}}}
			default:
				out[n] = map[string]interface{}{"inner": map[string]interface{}{"tags": []interface{}{"v"}}}
			}
		}
	}
	return out
}

// ReqOpt tunes the request generator.
type ReqOpt struct {
	Strat Strategy
	// NoErrors suppresses deliberately invalid selections.
	NoErrors bool
	// MultiOp allows several operations per document.
	MultiOp bool
	// Introspection allows __schema / __type selections.
	Introspection bool
	MaxDepth      int
	// VarInLiteral allows $variables inside literal input objects / lists.
	VarInLiteral bool
	// ShuffleArgs writes arguments out of declaration order.
	ShuffleArgs bool
	// NoUnion leaves union-typed fields out (the interface strategy cannot bind
	// union members: every object is the same Go wrapper type).
	NoUnion bool
	// UnknownArgs sometimes adds an argument the field does not declare.
	UnknownArgs bool
	// NoFragments leaves inline fragments and fragment spreads out (they can
	// repeat a response key of the enclosing selection set).
	NoFragments bool
	// PathMode generates narrow requests: one random path through the type
	// graph with a leaf at the end (different requests then enter the same
	// types through different fields first).
	PathMode bool
	// UniqueKeys avoids repeating a response key inside one selection set.
	UniqueKeys bool
	// Ghost allows the schema fields that have no Go counterpart (every
	// strategy answers them with an error).
	Ghost bool
	// Relay allows the field whose resolver issues a nested request on the
	// same root.
	Relay bool
	// Pick allows pick(i:) (a union-typed field whose argument decides the
	// member), the code fields (defined differently by every member) and
	// sub-fields selected directly under a union-typed field.
	Pick bool
	// Nick allows Keeper.nick (nullable argument, Go parameter that cannot
	// take null: a reflection root answers null / omitted with an error).
	Nick bool
	// Blob allows blob(j: Json): an argument of a custom scalar type given as
	// an object literal with $variables inside.
	Blob bool
	// Call allows call(prefix:, suffix:), a field of the interface Animal with
	// two arguments, one of them a variable that is sometimes left unset.
	Call bool
	// Span allows span(r: Range): an input type whose fields have list and
	// input-object defaults (nested), answered with the argument as received.
	Span bool
	// FragVars lets named fragments use a variable ($fv) that every operation
	// spreading them declares.
	FragVars bool
	// VarDirectivesInMeta puts @skip/@include with variables on selections
	// beneath __schema / __type.
	VarDirectivesInMeta bool
	// Sized allows sized(s: Size, l: [Size]): enum literals as arguments, one of
	// them (HUGE) only a value once the schema has been extended.
	Sized bool
	// Stash allows stash(v: Vault, key: String!): the input coercion of the
	// application's scalar panics for one value (the caller recovers).
	Stash bool
	// Stamps allows stamps: [Time] and levels: [Size], lists of leaf values
	// that the application keeps in one []interface{} shared by all requests.
	Stamps bool
	// Tune allows the schema's own executable directive @tune (list and
	// input-object argument defaults) on fields and fragments.
	Tune bool
	// BadDefaults now and then declares a variable with a default that does not
	// fit its type (the document is accepted; a call that leaves the variable
	// out fails, every time).
	BadDefaults bool
}

type reqGen struct {
	t     *tape.Tape
	o     ReqOpt
	vars  map[string]string      // name -> type (declaration)
	vals  map[string]interface{} // values to send
	defs  map[string]string      // name -> default literal
	frags map[string]string      // fragment name -> text
	nAli  int
	noVar bool
	// fragVar: inside the named fragment being generated; the fragment may use
	// the variable $fv, which every operation that spreads it then declares
	envAlias bool
	inFrag   string
	fragVars map[string]bool // fragment name -> uses $fv
}

func (g *reqGen) addVar(name, typ string, val interface{}, def string) string {
	if g.noVar {
		// named fragments are shared by operations: they use literals only
		switch v := val.(type) {
		case string:
			return strconv.Quote(v)
		case bool:
			return strconv.FormatBool(v)
		case int:
			return strconv.Itoa(v)
		}
		return def
	}
	if _, ok := g.vars[name]; !ok {
		g.vars[name] = typ
		if def != "" && g.t.Bool(1, 2) {
			g.defs[name] = def
			if g.t.Bool(1, 2) {
				g.vals[name] = val
			}
		} else {
			g.vals[name] = val
		}
	}
	return "$" + name
}

func (g *reqGen) argsFor(kind string) string {
	reflectStrat := g.o.Strat == StratReflect
	var parts []string
	switch kind {
	case "keeper":
		n := "k" + strconv.Itoa(g.t.Draw(5))
		if g.t.Bool(1, 3) {
			parts = []string{"name: " + g.addVar("kn", "String!", n, strconv.Quote(n))}
		} else {
			parts = []string{"name: " + strconv.Quote(n)}
		}
	case "stash":
		// an argument of a scalar implemented in Go (its CoerceIn panics for
		// "boom") defined before a required argument
		v := []string{`"boom"`, `"fine"`, `7`, `"boom"`}[g.t.Draw(4)]
		parts = []string{"v: " + v, "key: " + strconv.Quote("k"+strconv.Itoa(g.t.Draw(3)))}
	case "sized":
		// enum literals as arguments; HUGE is not a value of Size unless the
		// schema was extended (the check does that between two calls)
		vals := []string{"BIG", "SMALL", "HUGE"}
		switch g.t.Draw(3) {
		case 0:
			parts = []string{"s: " + vals[g.t.Draw(3)]}
		case 1:
			parts = []string{"l: [" + vals[g.t.Draw(3)] + ", " + vals[g.t.Draw(3)] + "]"}
		default:
			parts = []string{"s: " + vals[g.t.Draw(3)], "l: [" + vals[g.t.Draw(3)] + "]"}
		}
	case "echo":
		s := strconv.Quote("s" + strconv.Itoa(g.t.Draw(9)))
		if g.t.Bool(1, 3) {
			s = g.addVar("es", "String!", "sv", `"sd"`)
		}
		n := strconv.Itoa(g.t.Draw(50))
		if !reflectStrat && g.t.Bool(1, 3) {
			n = g.addVar("en", "Int!", 7, "8")
		}
		parts = []string{"s: " + s, "n: " + n}
	case "motto":
		if g.t.Bool(1, 3) {
			parts = []string{"upper: " + g.addVar("up", "Boolean!", g.t.Bool(1, 2), "true")}
		} else {
			parts = []string{"upper: " + strconv.FormatBool(g.t.Bool(1, 2))}
		}
	case "find":
		switch g.t.Draw(6) {
		case 0:
			return ""
		case 1:
			parts = []string{"filter: {minAge: " + strconv.Itoa(20+g.t.Draw(40)) + "}"}
		case 2:
			if g.o.VarInLiteral {
				parts = []string{"filter: {minAge: " + g.addVar("min", "Int", 30+g.t.Draw(20), "25") + ", names: [" + g.addVar("nm", "String", "k1", `"k0"`) + ", \"k2\"]}"}
			} else {
				parts = []string{"filter: {minAge: 33, names: [\"k1\"]}"}
			}
		case 3:
			parts = []string{"filter: {size: BIG, minAge: " + strconv.Itoa(g.t.Draw(60)) + "}"}
		case 4:
			// variable-free literal whose coercion is not the identity: input field
			// defaults are filled in (minAge, limit) and an Int literal becomes an ID string
			parts = []string{"filter: {size: SMALL, tag: " + strconv.Itoa(g.t.Draw(9)) + "}"}
		default:
			parts = []string{"filter: {names: [\"k1\", \"k" + strconv.Itoa(g.t.Draw(4)) + "\"], tag: \"t\"}"}
		}
	case "relay":
		parts = []string{"n: " + strconv.Itoa(g.t.Draw(3))}
	case "pick":
		if g.t.Bool(1, 2) {
			parts = []string{"i: " + g.addVar("pi", "Int!", g.t.Draw(12), "")}
		} else {
			parts = []string{"i: " + strconv.Itoa(g.t.Draw(12))}
		}
	case "vari":
		if g.t.Bool(1, 2) {
			return ""
		}
		parts = []string{"xs: [\"a\", \"b\"]"}
	case "tagged":
		switch g.t.Draw(3) {
		case 0:
			parts = []string{"filter: {}"}
		case 1:
			parts = []string{"filter: {minAge: " + strconv.Itoa(g.t.Draw(9)) + "}"}
		default:
			parts = []string{"filter: {names: [\"n" + strconv.Itoa(g.t.Draw(5)) + "\", \"m\"]}"}
		}
	case "blob":
		switch g.t.Draw(4) {
		case 0:
			return ""
		case 1:
			parts = []string{"j: {a: 1, b: [true, \"x\"]}"}
		case 2:
			parts = []string{"j: {a: " + g.addVar("bv", "Int", g.t.Draw(9), "5") + ", b: [" + g.addVar("bv", "Int", 0, "5") + ", 1], c: {d: \"x\"}}"}
		default:
			parts = []string{"j: [" + g.addVar("bw", "String", "w"+strconv.Itoa(g.t.Draw(5)), "") + ", {e: " + g.addVar("bw", "String", "", "") + "}]"}
		}
	case "call":
		switch g.t.Draw(4) {
		case 0:
			parts = []string{"prefix: \"<\"", "suffix: \">\""}
		case 1:
			parts = []string{"prefix: " + g.addVar("cp", "String", "p"+strconv.Itoa(g.t.Draw(5)), ""), "suffix: \"!\""}
		case 2:
			parts = []string{"suffix: " + g.addVar("cs", "String", "s"+strconv.Itoa(g.t.Draw(5)), "\"?\""), "prefix: " + g.addVar("cp", "String", "q", "")}
		default:
			parts = []string{"prefix: \"only\""}
		}
	case "span":
		switch g.t.Draw(10) {
		case 8, 9:
			// input objects inside a non-null list of non-null members
			parts = []string{"r: {steps: [{lo: " + strconv.Itoa(g.t.Draw(9)) + "}, {}], hi: 2}"}
		case 7:
			parts = []string{"r: {parts: " + g.addVar("ps", "[Range]", []interface{}{map[string]interface{}{"hi": 2}}, "[{hi: 4}, {}, {inner: {}}]") + "}"}
		case 0:
			return ""
		case 1:
			parts = []string{"r: {}"}
		case 2:
			parts = []string{"r: {lo: " + strconv.Itoa(g.t.Draw(9)) + "}"}
		case 3:
			parts = []string{"r: {inner: {}, parts: [{}, {inner: {hi: 2}}]}"}
		case 4:
			parts = []string{"r: {inner: {inner: {inner: {}}}, tags: null}"}
		case 5:
			parts = []string{"r: " + g.addVar("rg", "Range", map[string]interface{}{"parts": []interface{}{map[string]interface{}{}}}, "{hi: 4}")}
		default:
			parts = []string{"r: {parts: [{parts: [{}]}], hi: " + strconv.Itoa(g.t.Draw(9)) + "}"}
		}
	case "join":
		switch g.t.Draw(4) {
		case 0:
			parts = []string{"words: [\"a\", null, \"b\"]"}
		case 1:
			parts = []string{"words: null"}
		case 2:
			parts = []string{"words: []"}
		default:
			parts = []string{"words: [\"w" + strconv.Itoa(g.t.Draw(9)) + "\", \"x\"]"}
		}
	case "nick":
		switch g.t.Draw(4) {
		case 0:
			return ""
		case 1:
			parts = []string{"n: null"}
		default:
			parts = []string{"n: " + strconv.Itoa(g.t.Draw(9))}
		}
	case "code":
		if g.t.Bool(1, 4) {
			return ""
		}
		parts = []string{"pad: " + strconv.FormatBool(g.t.Bool(1, 2))}
	case "rename":
		parts = []string{"old: " + strconv.Quote("k"+strconv.Itoa(g.t.Draw(4))), "new: \"zz\""}
	}
	if g.o.UnknownArgs && len(parts) > 0 && g.t.Bool(1, 6) {
		parts = append(parts, "zz"+strconv.Itoa(g.t.Draw(2))+": 1")
	}
	if g.o.ShuffleArgs && len(parts) > 1 && g.t.Bool(1, 2) {
		parts[0], parts[1] = parts[1], parts[0]
	}
	if len(parts) == 0 {
		return ""
	}
	return "(" + strings.Join(parts, ", ") + ")"
}

func (g *reqGen) directive() string {
	if g.inFrag != "" && g.o.FragVars && g.t.Bool(1, 4) {
		// a variable used only inside a named fragment
		if g.fragVars == nil {
			g.fragVars = map[string]bool{}
		}
		g.fragVars[g.inFrag] = true
		return " @include(if: $fv)"
	}
	switch g.t.Draw(12) {
	case 0:
		return " @skip(if: false)"
	case 1:
		return " @include(if: true)"
	case 2:
		return " @skip(if: " + g.addVar("sk", "Boolean!", false, "false") + ")"
	case 3:
		return " @include(if: " + g.addVar("inc", "Boolean!", true, "true") + ")"
	case 4:
		return " @skip(if: true)"
	case 5, 6:
		if g.o.Tune {
			// a directive of the schema with list and input-object argument
			// defaults; arguments mostly left out
			return []string{" @tune", " @tune", " @tune(n: 4)", ` @tune(opts: ["x"])`, " @tune(r: {hi: 2})", " @tune(r: {}, opts: [])"}[g.t.Draw(6)]
		}
	}
	return ""
}

func (g *reqGen) fieldsOf(typ string) []zf {
	var fs []zf
	for _, f := range zooTypes[typ] {
		switch f.name {
		case "ghost", "vari", "triple":
			if !g.o.Ghost {
				continue
			}
			if f.name != "ghost" && g.o.UniqueKeys {
				continue // (C06 counts ghost positions only)
			}
		case "relay":
			if !g.o.Relay {
				continue
			}
		case "pick", "code":
			if !g.o.Pick {
				continue
			}
		case "join":
			if !g.o.Nick {
				continue
			}
		case "span":
			if !g.o.Span {
				continue
			}
		case "chief", "label", "labelRef", "labelAlso", "odd":
			continue // only through the fixed AltRequests / LabelRequests
		case "blob":
			if !g.o.Blob {
				continue
			}
		case "sized":
			if !g.o.Sized {
				continue
			}
		case "stamps", "levels":
			if !g.o.Stamps {
				continue
			}
		case "stash":
			if !g.o.Stash {
				continue
			}
		case "tagged":
			if !g.o.Span {
				continue
			}
		case "call":
			if !g.o.Call {
				continue
			}
		case "nick":
			if !g.o.Nick {
				continue
			}
		}
		fs = append(fs, f)
	}
	if g.o.Strat == StratReflect {
		var out []zf
		for _, f := range fs {
			if g.o.NoUnion && f.typ == "Thing" {
				continue
			}
			out = append(out, f)
		}
		return out
	}
	if g.o.NoUnion {
		var out []zf
		for _, f := range fs {
			if f.typ != "Thing" {
				out = append(out, f)
			}
		}
		return out
	}
	return fs
}

// directUnderUnion is a field selected directly under a union-typed field
// (ggql resolves it against whichever member the object is): the members
// define code differently, and name does not exist on every member.
func (g *reqGen) directUnderUnion() string {
	switch g.t.Draw(4) {
	case 0:
		return "code"
	case 1:
		return "code(pad: " + strconv.FormatBool(g.t.Bool(1, 2)) + ")"
	case 2:
		return "name"
	}
	return "c: code" + g.directive()
}

// pathSelection selects one object-typed field (or a fragment on a union
// member) per level and one leaf at the end.
func (g *reqGen) pathSelection(typ string, depth int) string {
	if members, ok := zooUnion[typ]; ok {
		if g.o.Pick && g.t.Bool(1, 2) {
			return " { " + g.directUnderUnion() + " }"
		}
		m := members[g.t.Draw(len(members))]
		return " { ... on " + m + g.pathSelection(m, depth+1) + " }"
	}
	fs := g.fieldsOf(typ)
	var objs, leaves []zf
	for _, f := range fs {
		if f.typ != "" {
			objs = append(objs, f)
		} else {
			leaves = append(leaves, f)
		}
	}
	if len(objs) > 0 && depth < g.o.MaxDepth && (len(leaves) == 0 || g.t.Bool(3, 4)) {
		f := objs[g.t.Draw(len(objs))]
		return " { " + f.name + g.argsFor(f.args) + g.pathSelection(f.typ, depth+1) + " }"
	}
	if len(leaves) == 0 {
		return " { __typename }"
	}
	f := leaves[g.t.Draw(len(leaves))]
	return " { " + f.name + g.argsFor(f.args) + " }"
}

func (g *reqGen) selection(typ string, depth int, ind string) string {
	if g.o.PathMode {
		return g.pathSelection(typ, depth)
	}
	var b strings.Builder
	b.WriteString(" {\n")
	if members, ok := zooUnion[typ]; ok {
		b.WriteString(ind + "  __typename\n")
		if g.o.Pick && g.t.Bool(1, 2) {
			b.WriteString(ind + "  " + g.directUnderUnion() + "\n")
		}
		for _, m := range members {
			if g.t.Bool(2, 3) {
				b.WriteString(ind + "  ... on " + m + g.selection(m, depth+1, ind+"  ") + "\n")
			}
		}
		b.WriteString(ind + "}")
		return b.String()
	}
	fs := g.fieldsOf(typ)
	n := 1 + g.t.Draw(4)
	wrote := 0
	used := map[string]bool{}
	for i := 0; i < n; i++ {
		switch g.t.Draw(14) {
		case 0:
			b.WriteString(ind + "  __typename\n")
			wrote++
			continue
		case 1:
			if typ != "Animal" && depth < g.o.MaxDepth && !g.o.NoFragments {
				// inline fragment, with or without condition
				cond := " on " + typ
				if g.t.Bool(1, 3) {
					cond = ""
				}
				b.WriteString(ind + "  ..." + cond + g.directive() + g.selection(typ, depth+1, ind+"  ") + "\n")
				wrote++
				continue
			}
		case 2:
			if (typ == "Keeper" || typ == "Dog" || typ == "Cell") && !g.o.NoFragments {
				name := "F" + typ + strconv.Itoa(g.t.Draw(2))
				if _, ok := g.frags[name]; !ok {
					g.frags[name] = "" // reserve (prevents self reference)
					old, oldIn := g.noVar, g.inFrag
					g.noVar, g.inFrag = true, name
					g.frags[name] = "fragment " + name + " on " + typ + g.selection(typ, depth+2, "") + "\n"
					g.noVar, g.inFrag = old, oldIn
				}
				if g.frags[name] != "" {
					if g.fragVars[name] || strings.Contains(g.frags[name], "$fv") {
						// the operation (or the enclosing fragment's operations) declares it
						if g.inFrag != "" {
							g.fragVars[g.inFrag] = true
						} else if _, ok := g.vars["fv"]; !ok {
							g.vars["fv"] = "Boolean"
							g.defs["fv"] = "true"
						}
					}
					b.WriteString(ind + "  ..." + name + g.directive() + "\n")
					wrote++
					continue
				}
			}
		case 3:
			if !g.o.NoErrors && g.t.Bool(1, 3) {
				b.WriteString(ind + "  nope" + strconv.Itoa(g.t.Draw(3)) + "\n")
				wrote++
				continue
			}
		}
		f := fs[g.t.Draw(len(fs))]
		if f.typ != "" && depth >= g.o.MaxDepth {
			// take a leaf instead
			var leaves []zf
			for _, x := range fs {
				if x.typ == "" {
					leaves = append(leaves, x)
				}
			}
			if len(leaves) > 0 {
				f = leaves[g.t.Draw(len(leaves))]
			}
		}
		alias := g.t.Bool(1, 4)
		if g.o.UniqueKeys && !alias && used[f.name] {
			alias = true
		}
		if f.name == "ghost" {
			// always under its own name: checks count the positions keyed "ghost"
			if used["\x00ghost"] {
				continue
			}
			used["\x00ghost"] = true
			alias = false
		}
		used[f.name] = true
		b.WriteString(ind + "  ")
		if alias {
			g.nAli++
			if !g.envAlias && g.t.Bool(1, 6) {
				// a response key that equals the library's own envelope key (once per
				// document: inline fragments write into the response object of their
				// parent, so a second one could collide with it)
				g.envAlias = true
				b.WriteString([]string{"data", "errors", "path"}[g.t.Draw(3)] + ": ")
			} else {
				b.WriteString("a" + strconv.Itoa(g.nAli) + ": ")
			}
		}
		b.WriteString(f.name + g.argsFor(f.args) + g.directive())
		if f.typ != "" {
			if depth > g.o.MaxDepth+1 {
				b.WriteString(" { __typename }")
			} else {
				b.WriteString(g.selection(f.typ, depth+1, ind+"  "))
			}
		}
		b.WriteString("\n")
		wrote++
	}
	if wrote == 0 {
		b.WriteString(ind + "  __typename\n")
	}
	b.WriteString(ind + "}")
	return b.String()
}

// GenRequest draws a request document.
func GenRequest(t *tape.Tape, o ReqOpt) *Request {
	if o.MaxDepth == 0 {
		o.MaxDepth = 4
	}
	g := &reqGen{t: t, o: o, vars: map[string]string{}, vals: map[string]interface{}{}, defs: map[string]string{}, frags: map[string]string{}}
	nops := 1
	if o.MultiOp {
		nops = 1 + t.Draw(3)
	}
	req := &Request{Vars: map[string]interface{}{}, VarTypes: map[string]string{}}
	var doc strings.Builder
	for i := 0; i < nops; i++ {
		g.vars, g.defs = map[string]string{}, map[string]string{}
		vals := g.vals
		g.vals = map[string]interface{}{}
		kind, typ := "query", "Query"
		if t.Bool(1, 8) {
			kind, typ = "mutation", "Mutation"
		}
		var body string
		if o.Introspection && t.Bool(1, 6) {
			d1, d2 := "", ""
			if o.VarDirectivesInMeta {
				d1 = " @include(if: " + g.addVar("inc", "Boolean!", true, "true") + ")"
				d2 = " @skip(if: " + g.addVar("sk", "Boolean!", false, "false") + ")"
			}
			switch t.Draw(5) {
			case 3:
				// the selection beneath __schema is a named fragment: two documents
				// can be textually equal up to the body of that fragment
				g.frags["MetaS"] = "fragment MetaS on __Schema " + []string{"{ queryType { name } }", "{ directives { name } }", "{ types { name } mutationType { name } }", "{ queryType { kind fields { name } } }"}[t.Draw(4)] + "\n"
				body = " {\n  __schema { ...MetaS }\n}"
			case 4:
				g.frags["MetaT"] = "fragment MetaT on __Type " + []string{"{ kind name }", "{ fields { name } }", "{ name possibleTypes { name } interfaces { name } }"}[t.Draw(3)] + "\n"
				body = " {\n  __type(name: \"" + []string{"Keeper", "Animal", "Thing"}[t.Draw(3)] + "\") { ...MetaT }\n}"
			case 0:
				body = " {\n  __schema { queryType { name } mutationType" + d2 + " { name } types" + d1 + " { name kind } directives { name" + d2 + " } }\n}"
			case 1:
				body = " {\n  __type(name: \"" + []string{"Keeper", "Animal", "Thing", "Size", "Filter", "Nope"}[t.Draw(6)] + "\") { name kind" + d2 + " fields" + d1 + " { name type { name kind ofType { name } } } possibleTypes { name } enumValues { name } inputFields { name } interfaces { name } }\n}"
			default:
				body = " {\n  __typename\n  title\n}"
			}
			kind = "query"
		} else {
			body = g.selection(typ, 0, "")
		}
		name := "Op" + strconv.Itoa(i)
		if nops == 1 && t.Bool(1, 2) {
			name = ""
		}
		hdr := kind
		if name != "" {
			hdr += " " + name
		}
		for n, ty := range g.vars {
			req.VarTypes[n] = ty
		}
		if len(g.vars) > 0 {
			names := make([]string, 0, len(g.vars))
			for n := range g.vars {
				names = append(names, n)
			}
			sort.Strings(names)
			var ds []string
			for _, n := range names {
				d := "$" + n + ": " + g.vars[n]
				if def, ok := g.defs[n]; ok {
					d += " = " + def
				}
				if g.o.BadDefaults && t.Bool(1, 6) {
					bad := ""
					switch strings.TrimSuffix(g.vars[n], "!") {
					case "Int":
						bad = `"seven"`
					case "String":
						bad = "[1]"
					case "Boolean":
						bad = `"yes"`
					case "Range":
						bad = `{lo: "x"}`
					case "[Range]":
						bad = `[{lo: "x"}]`
					}
					if bad != "" {
						d = "$" + n + ": " + g.vars[n] + " = " + bad
						delete(g.vals, n)
						if req.BadDefault == nil {
							req.BadDefault = map[string]bool{}
						}
						req.BadDefault[n] = true
					}
				}
				ds = append(ds, d)
			}
			hdr += "(" + strings.Join(ds, ", ") + ")"
		}
		if name == "" && len(g.vars) == 0 && kind == "query" && t.Bool(1, 2) {
			hdr = "" // shorthand query
			body = strings.TrimPrefix(body, " ")
		}
		doc.WriteString(hdr + body + "\n")
		req.Ops = append(req.Ops, name)
		for k, v := range g.vals {
			vals[k] = v
		}
		g.vals = vals
	}
	fnames := make([]string, 0, len(g.frags))
	for n := range g.frags {
		fnames = append(fnames, n)
	}
	sort.Strings(fnames)
	for _, n := range fnames {
		doc.WriteString(g.frags[n])
	}
	req.Src = doc.String()
	req.Vars = g.vals
	req.Op = req.Ops[t.Draw(len(req.Ops))]
	return req
}
