// Package workload generates schemas, data graphs and requests from a tape.
package workload

import (
	"fmt"
	"sort"
	"strings"

	"github.com/uhn/ggql/pkg/ggql"

	"verif/sim/tape"
)

// TExpr is a type expression: Name wrapped by List / NonNull layers.
type TExpr struct {
	Name    string
	List    *TExpr
	NonNull *TExpr
}

func (e *TExpr) String() string {
	switch {
	case e.List != nil:
		return "[" + e.List.String() + "]"
	case e.NonNull != nil:
		return e.NonNull.String() + "!"
	}
	return e.Name
}

// Build returns the programmatic form (with Refs).
func (e *TExpr) Build() ggql.Type {
	switch {
	case e.List != nil:
		return &ggql.List{Base: e.List.Build()}
	case e.NonNull != nil:
		return &ggql.NonNull{Base: e.NonNull.Build()}
	}
	return &ggql.Ref{Base: ggql.Base{N: e.Name}}
}

// FieldSpec is one field / input field / argument.
type FieldSpec struct {
	Name    string
	Type    *TExpr
	Args    []FieldSpec
	Default string // SDL literal, "" = none
	Dep     bool   // @deprecated
}

// TypeSpec describes one new type so that it can be rendered as SDL and built
// programmatically (AddTypes).
type TypeSpec struct {
	Kind       string // object interface union enum input scalar directive
	Name       string
	Desc       string
	Implements []string
	Fields     []FieldSpec
	Members    []string
	Values     []string
	DirUses    []string // rendered uses, e.g. "@d3(x: 5)"
}

func renderFields(b *strings.Builder, fs []FieldSpec, input bool) {
	for _, f := range fs {
		b.WriteString("  ")
		b.WriteString(f.Name)
		if len(f.Args) > 0 {
			b.WriteString("(")
			for i, a := range f.Args {
				if i > 0 {
					b.WriteString(", ")
				}
				b.WriteString(a.Name + ": " + a.Type.String())
				if a.Default != "" {
					b.WriteString(" = " + a.Default)
				}
			}
			b.WriteString(")")
		}
		b.WriteString(": " + f.Type.String())
		if input && f.Default != "" {
			b.WriteString(" = " + f.Default)
		}
		if f.Dep {
			b.WriteString(" @deprecated")
		}
		b.WriteString("\n")
	}
}

// SDL renders the spec.
func (s *TypeSpec) SDL() string {
	var b strings.Builder
	if s.Desc != "" {
		fmt.Fprintf(&b, "%q\n", s.Desc)
	}
	dirs := ""
	for _, d := range s.DirUses {
		dirs += " " + d
	}
	switch s.Kind {
	case "object":
		b.WriteString("type " + s.Name)
		if len(s.Implements) > 0 {
			b.WriteString(" implements " + strings.Join(s.Implements, " & "))
		}
		b.WriteString(dirs + " {\n")
		renderFields(&b, s.Fields, false)
		b.WriteString("}\n")
	case "interface":
		b.WriteString("interface " + s.Name + dirs + " {\n")
		renderFields(&b, s.Fields, false)
		b.WriteString("}\n")
	case "input":
		b.WriteString("input " + s.Name + dirs + " {\n")
		renderFields(&b, s.Fields, true)
		b.WriteString("}\n")
	case "union":
		b.WriteString("union " + s.Name + dirs + " = " + strings.Join(s.Members, " | ") + "\n")
	case "enum":
		b.WriteString("enum " + s.Name + dirs + " {\n")
		for _, v := range s.Values {
			b.WriteString("  " + v + "\n")
		}
		b.WriteString("}\n")
	case "scalar", "goscalar":
		b.WriteString("scalar " + s.Name + dirs + "\n")
	case "directive":
		b.WriteString("directive @" + s.Name)
		if len(s.Fields) > 0 {
			b.WriteString("(")
			for i, a := range s.Fields {
				if i > 0 {
					b.WriteString(", ")
				}
				b.WriteString(a.Name + ": " + a.Type.String())
				if a.Default != "" {
					b.WriteString(" = " + a.Default)
				}
			}
			b.WriteString(")")
		}
		b.WriteString(" on " + strings.Join(s.Members, " | ") + "\n")
	}
	return b.String()
}

// CanBuild says whether Build supports the spec (no directive uses, defaults
// or scalars: those need the parser).
func (s *TypeSpec) CanBuild() bool {
	if len(s.DirUses) > 0 || s.Kind == "scalar" || s.Kind == "directive" {
		return false
	}
	for _, f := range s.Fields {
		if f.Default != "" || f.Dep {
			return false
		}
		for _, a := range f.Args {
			if a.Default != "" {
				return false
			}
		}
	}
	for _, v := range s.Values {
		if strings.Contains(v, "@") {
			return false
		}
	}
	return true
}

// Build constructs the type programmatically for Root.AddTypes.
func (s *TypeSpec) Build() ggql.Type {
	base := ggql.Base{N: s.Name, Desc: s.Desc}
	mkFields := func(add func(*ggql.FieldDef) error) {
		for _, f := range s.Fields {
			fd := &ggql.FieldDef{Base: ggql.Base{N: f.Name}, Type: f.Type.Build()}
			for _, a := range f.Args {
				_ = fd.AddArg(&ggql.Arg{Base: ggql.Base{N: a.Name}, Type: a.Type.Build()})
			}
			_ = add(fd)
		}
	}
	switch s.Kind {
	case "object":
		o := &ggql.Object{Base: base}
		for _, i := range s.Implements {
			o.Interfaces = append(o.Interfaces, &ggql.Ref{Base: ggql.Base{N: i}})
		}
		mkFields(o.AddField)
		return o
	case "interface":
		// Interface.Root is needed for possibleTypes; set by caller.
		i := &ggql.Interface{Base: base}
		mkFields(i.AddField)
		return i
	case "input":
		in := &ggql.Input{Base: base}
		for _, f := range s.Fields {
			_ = in.AddField(&ggql.InputField{Base: ggql.Base{N: f.Name}, Type: f.Type.Build()})
		}
		return in
	case "union":
		u := &ggql.Union{Base: base}
		for _, m := range s.Members {
			u.Members = append(u.Members, &ggql.Ref{Base: ggql.Base{N: m}})
		}
		return u
	case "enum":
		e := &ggql.Enum{Base: base}
		for _, v := range s.Values {
			_ = e.AddValue(&ggql.EnumValue{Value: ggql.Symbol(v)})
		}
		return e
	case "goscalar":
		return &GoScalar{ggql.Scalar{Base: base}}
	}
	return nil
}

// GoScalar is a scalar implemented by the application (AddTypes): values that
// pass through it are marked, so that a response shows which implementation
// of a scalar name served it.
type GoScalar struct {
	ggql.Scalar
}

// CoerceIn implements ggql.InCoercer.
func (t *GoScalar) CoerceIn(v interface{}) (interface{}, error) {
	if s, ok := v.(string); ok {
		return "in(" + s + ")", nil
	}
	return v, nil
}

// CoerceOut implements ggql.OutCoercer.
func (t *GoScalar) CoerceOut(v interface{}) (interface{}, error) {
	if s, ok := v.(string); ok {
		return "out(" + s + ")", nil
	}
	return v, nil
}

// ---------------------------------------------------------------------------
// Symbol table read back from a root through its public API.

// FInfo is a field seen in a root.
type FInfo struct {
	Name string
	Type string
	Args []FInfo
}

// TInfo is a type seen in a root.
type TInfo struct {
	Kind       string
	Name       string
	Fields     []FInfo
	Interfaces []string
	Members    []string
	Values     []string
	Dirs       []string
}

// SymTab is what the generator knows about a root.
type SymTab struct {
	Types     []*TInfo
	ByName    map[string]*TInfo
	Dirs      []string // custom directive names
	HasSchema bool     // explicit schema block present
}

func finfo(fds []*ggql.FieldDef) (out []FInfo) {
	for _, fd := range fds {
		fi := FInfo{Name: fd.Name(), Type: fd.Type.Name()}
		for _, a := range fd.Args() {
			fi.Args = append(fi.Args, FInfo{Name: a.Name(), Type: a.Type.Name()})
		}
		out = append(out, fi)
	}
	return
}

func dirNames(t ggql.Type) (out []string) {
	for _, du := range t.Directives() {
		if du.Directive != nil {
			out = append(out, du.Directive.Name())
		}
	}
	return
}

// ReadSymTab derives the symbol table of root. maxDir is the highest custom
// directive counter value to probe for (names d1..dN).
func ReadSymTab(root *ggql.Root, maxDir int) *SymTab {
	st := &SymTab{ByName: map[string]*TInfo{}}
	for _, t := range root.Types() {
		if t.Core() || strings.HasPrefix(t.Name(), "__") {
			continue
		}
		ti := &TInfo{Name: t.Name(), Dirs: dirNames(t)}
		switch tt := t.(type) {
		case *ggql.Schema:
			st.HasSchema = true
			continue
		case *ggql.Object:
			ti.Kind = "object"
			ti.Fields = finfo(tt.Fields())
			for _, i := range tt.Interfaces {
				ti.Interfaces = append(ti.Interfaces, i.Name())
			}
		case *ggql.Interface:
			ti.Kind = "interface"
			ti.Fields = finfo(tt.Fields())
		case *ggql.Union:
			ti.Kind = "union"
			for _, m := range tt.Members {
				ti.Members = append(ti.Members, m.Name())
			}
		case *ggql.Enum:
			ti.Kind = "enum"
			for _, v := range tt.Values() {
				ti.Values = append(ti.Values, string(v.Value))
			}
		case *ggql.Input:
			ti.Kind = "input"
			for _, f := range tt.Fields() {
				ti.Fields = append(ti.Fields, FInfo{Name: f.Name(), Type: f.Type.Name()})
			}
		default:
			ti.Kind = "scalar"
		}
		st.Types = append(st.Types, ti)
		st.ByName[ti.Name] = ti
	}
	for i := 1; i <= maxDir; i++ {
		n := fmt.Sprintf("d%d", i)
		if d, _ := root.GetType(n).(*ggql.Directive); d != nil {
			st.Dirs = append(st.Dirs, n)
		}
	}
	return st
}

// OfKind lists the types of a kind, in table order (deterministic: the root
// keeps its type list sorted).
func (st *SymTab) OfKind(kind string) (out []*TInfo) {
	for _, t := range st.Types {
		if t.Kind == kind {
			out = append(out, t)
		}
	}
	return
}

func (st *SymTab) hasImplementers(iface string) bool {
	for _, t := range st.Types {
		for _, i := range t.Interfaces {
			if i == iface {
				return true
			}
		}
	}
	return false
}

// ---------------------------------------------------------------------------
// Fragment generation

// Fragment is one piece of a schema document.
type Fragment struct {
	Kind string // e.g. new_object, extend_enum, schema_block, poison:syntax:...
	Text string
	Spec *TypeSpec // set for new-type fragments
	// Mutates says the fragment changes an already existing type or the schema
	// pointer when applied (extend / schema block): the leak-prone kinds.
	Mutates bool
}

// Gen generates fragments against a symbol table. Names are made fresh from a
// counter that never repeats inside a run.
type Gen struct {
	T  *tape.Tape
	N  int
	St *SymTab
	// pending are the types created by earlier fragments of the document
	// being generated (not yet in the root).
	pending []*TInfo
	// CaseTwins makes some type names differ from an earlier name of the same
	// kind only in case (T5 / t5).
	CaseTwins bool
	issued    map[string][]string
	// GoExtends allows extensions that carry the @go directive.
	GoExtends bool
	// TypeNamedDirectives lets new directives carry the name of a loaded type.
	TypeNamedDirectives bool
	// dirLit maps a custom directive to a literal for its input-object argument
	// "o" ("" = the directive has no such argument).
	dirLit map[string]string
}

func (g *Gen) fresh(prefix string) string {
	if g.CaseTwins {
		switch prefix {
		case "T", "E", "I", "In", "S", "U":
			// a type named like a custom directive (types and directives live in
			// separate name spaces)
			if len(g.St.Dirs) > 0 && g.T.Bool(1, 10) {
				n := g.St.Dirs[g.T.Draw(len(g.St.Dirs))]
				taken := false
				for k, l := range g.issued {
					if k == "d" {
						continue // the directive itself
					}
					for _, x := range l {
						if x == n {
							taken = true
						}
					}
				}
				if !taken {
					if g.issued == nil {
						g.issued = map[string][]string{}
					}
					g.issued[prefix+"-dirtwin"] = append(g.issued[prefix+"-dirtwin"], n)
					return n
				}
			}
			if prev := g.issued[prefix]; len(prev) > 0 && g.T.Bool(1, 5) {
				n := strings.ToLower(prev[g.T.Draw(len(prev))])
				taken := false
				for _, l := range g.issued {
					for _, x := range l {
						if x == n {
							taken = true
						}
					}
				}
				if !taken {
					g.issued[prefix+"-twin"] = append(g.issued[prefix+"-twin"], n)
					return n
				}
			}
		}
	}
	g.N++
	n := fmt.Sprintf("%s%d", prefix, g.N)
	if g.CaseTwins {
		if g.issued == nil {
			g.issued = map[string][]string{}
		}
		g.issued[prefix] = append(g.issued[prefix], n)
	}
	return n
}

func (g *Gen) all(kind string) []*TInfo {
	out := g.St.OfKind(kind)
	for _, p := range g.pending {
		if p.Kind == kind {
			out = append(out, p)
		}
	}
	return out
}

func (g *Gen) pick(kind string) *TInfo {
	l := g.all(kind)
	if len(l) == 0 {
		return nil
	}
	return l[g.T.Draw(len(l))]
}

var leafOut = []string{"Int", "String", "Float", "Boolean", "ID"}

func (g *Gen) wrap(name string) *TExpr {
	e := &TExpr{Name: name}
	switch g.T.Draw(8) {
	case 0:
		return &TExpr{List: e}
	case 1:
		return &TExpr{NonNull: e}
	case 2:
		return &TExpr{NonNull: &TExpr{List: &TExpr{NonNull: e}}}
	case 3:
		return &TExpr{List: &TExpr{List: e}}
	case 4:
		if g.T.Bool(1, 2) {
			// a matrix: non-null list of lists (of non-null members)
			if g.T.Bool(1, 2) {
				return &TExpr{NonNull: &TExpr{List: &TExpr{List: &TExpr{NonNull: e}}}}
			}
			return &TExpr{NonNull: &TExpr{List: &TExpr{List: e}}}
		}
	}
	return e
}

func (g *Gen) outType() *TExpr {
	var names []string
	names = append(names, leafOut...)
	for _, k := range []string{"object", "interface", "union", "enum", "scalar"} {
		for _, t := range g.all(k) {
			names = append(names, t.Name)
		}
	}
	return g.wrap(names[g.T.Draw(len(names))])
}

func (g *Gen) inType() (*TExpr, string) {
	type cand struct{ name, def string }
	cs := []cand{{"Int", "3"}, {"String", `"x"`}, {"Boolean", "true"}, {"Float", "1.5"}, {"ID", `"id"`}}
	for _, t := range g.all("enum") {
		if len(t.Values) > 0 {
			// any value may serve as a default, also one that another arrangement
			// of the same definitions declares through an extend block
			cs = append(cs, cand{t.Name, t.Values[g.T.Draw(len(t.Values))]})
		}
	}
	for _, t := range g.all("input") {
		// (an input-object default: the literal that gives the required fields)
		lit := ""
		if l, ok := g.inputLiteralDepth(t, 2); ok {
			lit = l
		}
		cs = append(cs, cand{t.Name, lit})
	}
	for _, t := range g.all("scalar") {
		cs = append(cs, cand{t.Name, ""})
	}
	c := cs[g.T.Draw(len(cs))]
	e := g.wrap(c.name)
	def := ""
	if e.Name != "" && c.def != "" && g.T.Bool(1, 2) {
		def = c.def
	} else if e.List != nil && e.List.Name != "" && c.def != "" && g.T.Bool(1, 2) {
		def = "[" + c.def + "]"
	}
	return e, def
}

func (g *Gen) dirUse(exclude []string) string {
	var cands []string
	for _, d := range g.St.Dirs {
		skip := false
		for _, x := range exclude {
			if x == d {
				skip = true
			}
		}
		if !skip {
			cands = append(cands, d)
		}
	}
	if len(cands) == 0 {
		return ""
	}
	d := cands[g.T.Draw(len(cands))]
	if lit := g.dirLit[d]; lit != "" && g.T.Bool(1, 2) {
		// the input-object argument (coerced during validation: the input type's
		// field defaults are filled in)
		if g.T.Bool(1, 2) {
			return fmt.Sprintf("@%s(o: %s)", d, lit)
		}
		return fmt.Sprintf("@%s(x: %d, o: %s)", d, g.T.Draw(9), lit)
	}
	switch g.T.Draw(5) {
	case 0, 1:
		return fmt.Sprintf("@%s(x: %d)", d, g.T.Draw(9))
	case 2:
		// an explicit null is not "argument left out": the declared default
		// does not apply
		return "@" + d + "(x: null)"
	}
	return "@" + d
}

// inputLiteral builds an input-object literal that gives every required field
// of the input type a value (ok is false when a required field has a type the
// generator cannot write a value for).
func (g *Gen) inputLiteral(in *TInfo) (string, bool) { return g.inputLiteralDepth(in, 0) }

func (g *Gen) inputByName(name string) *TInfo {
	for _, t := range g.all("input") {
		if t.Name == name {
			return t
		}
	}
	return nil
}

func (g *Gen) inputLiteralDepth(in *TInfo, depth int) (string, bool) {
	var parts []string
	for _, f := range in.Fields {
		typ := f.Type
		if !strings.HasSuffix(typ, "!") {
			// optional: mostly left out; a nested input object is sometimes given
			// as an empty-ish literal (validation fills its defaults in)
			b := strings.Trim(typ, "[]!")
			if nested := g.inputByName(b); nested != nil && depth < 2 && !strings.Contains(typ, "[") && g.T.Bool(1, 2) {
				if nl, ok := g.inputLiteralDepth(nested, depth+1); ok {
					parts = append(parts, f.Name+": "+nl)
				}
			}
			continue
		}
		base := strings.Trim(typ, "[]!")
		var v string
		if nested := g.inputByName(base); nested != nil && depth < 3 {
			// a nested input object, given as a literal of its own
			if nl, ok := g.inputLiteralDepth(nested, depth+1); ok {
				v = nl
				for i := 0; i < strings.Count(typ, "["); i++ {
					v = "[" + v + "]"
				}
				parts = append(parts, f.Name+": "+v)
				continue
			}
			return "", false
		}
		switch base {
		case "Int":
			v = "1"
		case "Float":
			v = "1.5"
		case "String", "ID":
			v = `"s"`
		case "Boolean":
			v = "true"
		default:
			return "", false
		}
		for i := 0; i < strings.Count(typ, "["); i++ {
			v = "[" + v + "]"
		}
		parts = append(parts, f.Name+": "+v)
	}
	return "{" + strings.Join(parts, ", ") + "}", true
}

// maybeDirs gives a new type a directive use now and then.
func (g *Gen) maybeDirs(s *TypeSpec) {
	if g.T.Bool(1, 5) {
		if du := g.dirUse(nil); du != "" {
			s.DirUses = []string{du}
		}
	}
}

func (g *Gen) fields(n int) []FieldSpec {
	var out []FieldSpec
	for i := 0; i < n; i++ {
		f := FieldSpec{Name: g.fresh("f"), Type: g.outType()}
		if g.T.Bool(1, 4) {
			at, def := g.inType()
			f.Args = append(f.Args, FieldSpec{Name: g.fresh("a"), Type: at, Default: def})
		}
		if g.T.Bool(1, 8) {
			f.Dep = true
		}
		out = append(out, f)
	}
	return out
}

func texprFromName(name string) *TExpr {
	// parse "[T!]!" style names back into an expression
	if strings.HasSuffix(name, "!") {
		return &TExpr{NonNull: texprFromName(name[:len(name)-1])}
	}
	if strings.HasPrefix(name, "[") && strings.HasSuffix(name, "]") {
		return &TExpr{List: texprFromName(name[1 : len(name)-1])}
	}
	return &TExpr{Name: name}
}

func (g *Gen) newObject(name string) Fragment {
	s := &TypeSpec{Kind: "object", Name: name}
	if name == "" {
		s.Name = g.fresh("T")
	}
	if g.T.Bool(1, 3) {
		// one to three interfaces, in an order of their own (not the order of
		// their names or of their definitions)
		want := 1
		if g.T.Bool(1, 2) {
			want = 2 + g.T.Draw(2)
		}
		have := map[string]bool{}
		fnames := map[string]bool{}
		for k := 0; k < want*2 && len(s.Implements) < want; k++ {
			it := g.pick("interface")
			if it == nil {
				break
			}
			clash := have[it.Name]
			for _, f := range it.Fields {
				if fnames[f.Name] {
					clash = true
				}
			}
			if clash {
				continue
			}
			have[it.Name] = true
			if g.T.Bool(1, 2) {
				s.Implements = append(s.Implements, it.Name)
			} else {
				s.Implements = append([]string{it.Name}, s.Implements...)
			}
			for _, f := range it.Fields {
				fnames[f.Name] = true
				fs := FieldSpec{Name: f.Name, Type: texprFromName(f.Type)}
				for _, a := range f.Args {
					fs.Args = append(fs.Args, FieldSpec{Name: a.Name, Type: texprFromName(a.Type)})
				}
				s.Fields = append(s.Fields, fs)
			}
		}
	}
	s.Fields = append(s.Fields, g.fields(1+g.T.Draw(3))...)
	if g.T.Bool(1, 4) {
		if du := g.dirUse(nil); du != "" {
			s.DirUses = []string{du}
		}
	}
	if g.T.Bool(1, 6) {
		s.Desc = "about " + s.Name
	}
	ti := &TInfo{Kind: "object", Name: s.Name, Interfaces: s.Implements}
	for _, f := range s.Fields {
		ti.Fields = append(ti.Fields, FInfo{Name: f.Name, Type: f.Type.String()})
	}
	g.pending = append(g.pending, ti)
	return Fragment{Kind: "new_object", Text: s.SDL(), Spec: s}
}

// Valid generates one valid fragment.
func (g *Gen) Valid() Fragment {
	if g.St.ByName["Query"] == nil && !g.hasPending("Query") && g.T.Bool(4, 5) {
		return g.newObject("Query")
	}
	// the other operation root types are found by name as well
	for _, n := range []string{"Mutation", "Subscription"} {
		if g.St.ByName[n] == nil && !g.hasPending(n) && g.T.Bool(1, 8) {
			return g.newObject(n)
		}
	}
	for tries := 0; tries < 8; tries++ {
		switch g.T.Draw(16) {
		case 0, 1:
			return g.newObject("")
		case 2:
			s := &TypeSpec{Kind: "interface", Name: g.fresh("I"), Fields: g.fields(1 + g.T.Draw(2))}
			for i := range s.Fields {
				s.Fields[i].Dep = false
			}
			ti := &TInfo{Kind: "interface", Name: s.Name}
			for _, f := range s.Fields {
				fi := FInfo{Name: f.Name, Type: f.Type.String()}
				for _, a := range f.Args {
					fi.Args = append(fi.Args, FInfo{Name: a.Name, Type: a.Type.String()})
				}
				ti.Fields = append(ti.Fields, fi)
			}
			g.pending = append(g.pending, ti)
			g.maybeDirs(s)
			return Fragment{Kind: "new_interface", Text: s.SDL(), Spec: s}
		case 3:
			objs := g.all("object")
			if len(objs) == 0 {
				continue
			}
			s := &TypeSpec{Kind: "union", Name: g.fresh("U")}
			a := g.T.Draw(len(objs))
			s.Members = append(s.Members, objs[a].Name)
			if len(objs) > 1 && g.T.Bool(1, 2) {
				b := g.T.Draw(len(objs))
				if b != a {
					s.Members = append(s.Members, objs[b].Name)
				}
			}
			g.pending = append(g.pending, &TInfo{Kind: "union", Name: s.Name, Members: s.Members})
			g.maybeDirs(s)
			return Fragment{Kind: "new_union", Text: s.SDL(), Spec: s}
		case 4:
			s := &TypeSpec{Kind: "enum", Name: g.fresh("E")}
			for i := 0; i < 1+g.T.Draw(3); i++ {
				s.Values = append(s.Values, g.fresh("V"))
			}
			g.pending = append(g.pending, &TInfo{Kind: "enum", Name: s.Name, Values: append([]string(nil), s.Values...)})
			if g.T.Bool(1, 4) {
				s.Values[len(s.Values)-1] += " @deprecated"
			}
			return Fragment{Kind: "new_enum", Text: s.SDL(), Spec: s}
		case 5:
			s := &TypeSpec{Kind: "input", Name: g.fresh("In")}
			ti := &TInfo{Kind: "input", Name: s.Name}
			for i := 0; i < 1+g.T.Draw(3); i++ {
				at, def := g.inType()
				// an input may not (usefully) contain itself non-null; fresh name so no cycle
				f := FieldSpec{Name: g.fresh("k"), Type: at, Default: def}
				s.Fields = append(s.Fields, f)
				ti.Fields = append(ti.Fields, FInfo{Name: f.Name, Type: at.String()})
			}
			// chains of input types: a field of an input type that exists already,
			// half of the time with an input-object default (nested defaults)
			if others := g.all("input"); len(others) > 0 && g.T.Bool(1, 2) {
				o := others[g.T.Draw(len(others))]
				f := FieldSpec{Name: g.fresh("k"), Type: &TExpr{Name: o.Name}}
				if lit, ok := g.inputLiteralDepth(o, 2); ok && g.T.Bool(1, 2) {
					f.Default = lit
				}
				s.Fields = append(s.Fields, f)
				ti.Fields = append(ti.Fields, FInfo{Name: f.Name, Type: o.Name})
			}
			g.pending = append(g.pending, ti)
			g.maybeDirs(s)
			return Fragment{Kind: "new_input", Text: s.SDL(), Spec: s}
		case 6:
			s := &TypeSpec{Kind: "scalar", Name: g.fresh("S")}
			g.pending = append(g.pending, &TInfo{Kind: "scalar", Name: s.Name})
			g.maybeDirs(s)
			return Fragment{Kind: "new_scalar", Text: s.SDL(), Spec: s}
		case 7:
			dname := g.fresh("d")
			if g.TypeNamedDirectives && len(g.St.Types) > 0 && g.T.Bool(1, 3) {
				// types and directives have separate name spaces: a directive may
				// carry the name of a loaded type
				cand := g.St.Types[g.T.Draw(len(g.St.Types))].Name
				if d, _ := g.dirLit["\x00taken:"+cand]; d == "" && !strings.HasPrefix(cand, "__") {
					if g.dirLit == nil {
						g.dirLit = map[string]string{}
					}
					g.dirLit["\x00taken:"+cand] = "x"
					dname = cand
				}
			}
			s := &TypeSpec{Kind: "directive", Name: dname,
				Fields:  []FieldSpec{{Name: "x", Type: &TExpr{Name: "Int"}, Default: fmt.Sprint(1 + g.T.Draw(5))}},
				Members: []string{"OBJECT", "FIELD_DEFINITION", "ENUM", "UNION", "INPUT_OBJECT", "INTERFACE", "SCALAR", "ENUM_VALUE", "SCHEMA", "ARGUMENT_DEFINITION", "INPUT_FIELD_DEFINITION"}}
			if g.T.Bool(1, 2) {
				// a second argument of an input-object type (already loaded or
				// defined earlier in this document), sometimes with a default
				var ins []*TInfo
				var lits []string
				for _, in := range g.all("input") {
					if lit, ok := g.inputLiteral(in); ok {
						ins = append(ins, in)
						lits = append(lits, lit)
					}
				}
				if len(ins) > 0 {
					k := g.T.Draw(len(ins))
					fs := FieldSpec{Name: "o", Type: &TExpr{Name: ins[k].Name}}
					if g.T.Bool(1, 2) {
						fs.Default = lits[k]
					}
					s.Fields = append(s.Fields, fs)
					if g.dirLit == nil {
						g.dirLit = map[string]string{}
					}
					g.dirLit[s.Name] = lits[k]
				}
			}
			return Fragment{Kind: "new_directive", Text: s.SDL(), Spec: s}
		case 8, 9:
			t := g.pickExisting("object")
			if t == nil {
				continue
			}
			if it := g.pickExisting("interface"); it != nil && g.T.Bool(1, 5) {
				already := false
				for _, i := range t.Interfaces {
					if i == it.Name {
						already = true
					}
				}
				clash := false
				for _, f := range it.Fields {
					for _, have := range t.Fields {
						if have.Name == f.Name {
							clash = true
						}
					}
				}
				if !already && !clash {
					var b strings.Builder
					fmt.Fprintf(&b, "extend type %s implements %s {\n", t.Name, it.Name)
					for _, f := range it.Fields {
						b.WriteString("  " + f.Name)
						if len(f.Args) > 0 {
							var as []string
							for _, a := range f.Args {
								as = append(as, a.Name+": "+a.Type)
							}
							b.WriteString("(" + strings.Join(as, ", ") + ")")
						}
						b.WriteString(": " + f.Type + "\n")
					}
					b.WriteString("}\n")
					return Fragment{Kind: "extend_object_implements", Text: b.String(), Mutates: true}
				}
			}
			if g.T.Bool(1, 4) {
				if du := g.dirUse(t.Dirs); du != "" {
					return Fragment{Kind: "extend_object_dir", Text: fmt.Sprintf("extend type %s %s {\n}\n", t.Name, du), Mutates: true}
				}
			}
			var b strings.Builder
			fmt.Fprintf(&b, "extend type %s {\n", t.Name)
			renderFields(&b, g.fields(1+g.T.Draw(2)), false)
			b.WriteString("}\n")
			return Fragment{Kind: "extend_object", Text: b.String(), Mutates: true}
		case 10:
			t := g.pickExisting("enum")
			if t == nil {
				continue
			}
			return Fragment{Kind: "extend_enum", Text: fmt.Sprintf("extend enum %s {\n  %s\n}\n", t.Name, g.fresh("V")), Mutates: true}
		case 11:
			t := g.pickExisting("union")
			if t == nil {
				continue
			}
			var cands []string
			for _, o := range g.St.OfKind("object") {
				in := false
				for _, m := range t.Members {
					if m == o.Name {
						in = true
					}
				}
				if !in {
					cands = append(cands, o.Name)
				}
			}
			if len(cands) == 0 {
				continue
			}
			return Fragment{Kind: "extend_union", Text: fmt.Sprintf("extend union %s = %s\n", t.Name, cands[g.T.Draw(len(cands))]), Mutates: true}
		case 12:
			t := g.pickExisting("input")
			if t == nil {
				continue
			}
			if g.T.Bool(1, 8) {
				// a loop of required input fields that runs through a loaded input
				// type by way of an extension (such an input cannot be given a value
				// any more; the library accepts the schema)
				n := g.fresh("ZStep")
				return Fragment{Kind: "input_required_loop_through_extend", Mutates: true,
					Text: fmt.Sprintf("input %s {\n  of: %s!\n}\nextend input %s {\n  %s: %s!\n}\n", n, t.Name, t.Name, g.fresh("k"), n)}
			}
			// exactly one field per extend block: Input.Extend iterates a map
			// (half of them with a default: every literal of that type written
			// earlier gains the field when it is coerced again)
			def := ""
			if g.T.Bool(1, 2) {
				def = fmt.Sprintf(" = %d", 1+g.T.Draw(9))
			}
			return Fragment{Kind: "extend_input", Text: fmt.Sprintf("extend input %s {\n  %s: Int%s\n}\n", t.Name, g.fresh("k"), def), Mutates: true}
		case 13:
			t := g.pickExisting("interface")
			if t == nil || g.St.hasImplementers(t.Name) || g.pendingImplements(t.Name) {
				continue
			}
			return Fragment{Kind: "extend_interface", Text: fmt.Sprintf("extend interface %s {\n  %s: String\n}\n", t.Name, g.fresh("f")), Mutates: true}
		case 14:
			if g.St.HasSchema || g.hasPending("<schema>") {
				continue
			}
			q := g.St.ByName["Query"]
			if q == nil {
				continue
			}
			txt := "schema {\n  query: Query\n"
			if o := g.pickExisting("object"); o != nil && o.Name != "Query" && g.T.Bool(1, 2) {
				txt += "  mutation: " + o.Name + "\n"
			}
			txt += "}\n"
			g.pending = append(g.pending, &TInfo{Kind: "schema", Name: "<schema>"})
			return Fragment{Kind: "schema_block", Text: txt, Mutates: true}
		case 15:
			// extend schema with a subscription root; only valid once per root
			if g.St.ByName["Query"] == nil || g.hasPending("<extschema>") {
				continue
			}
			o := g.pickExisting("object")
			if o == nil {
				continue
			}
			g.pending = append(g.pending, &TInfo{Kind: "schema", Name: "<extschema>"})
			return Fragment{Kind: "extend_schema", Text: fmt.Sprintf("extend schema {\n  subscription: %s\n}\n", o.Name), Mutates: true}
		}
	}
	return g.newObject("")
}

func (g *Gen) hasPending(name string) bool {
	for _, p := range g.pending {
		if p.Name == name {
			return true
		}
	}
	return false
}

func (g *Gen) pendingImplements(iface string) bool {
	for _, p := range g.pending {
		for _, i := range p.Interfaces {
			if i == iface {
				return true
			}
		}
	}
	return false
}

// pickExisting picks a type already in the root (extends need that).
func (g *Gen) pickExisting(kind string) *TInfo {
	l := g.St.OfKind(kind)
	if len(l) == 0 {
		return nil
	}
	return l[g.T.Draw(len(l))]
}

// PickLoaded picks a type of the given kind that is loaded in the root.
func (g *Gen) PickLoaded(kind string) *TInfo { return g.pickExisting(kind) }

// ResetDoc forgets the pending types of the previous document.
func (g *Gen) ResetDoc() { g.pending = nil }

// PoisonClasses lists the failure classes Poison can produce.
var PoisonClasses = []string{"syntax", "undefined_ref", "failed_extend", "validation", "duplicate"}

// Poison generates one fragment that makes the document fail, for exactly one
// reason of the chosen class.
func (g *Gen) Poison() Fragment {
	obj := g.pickExisting("object")
	enum := g.pickExisting("enum")
	union := g.pickExisting("union")
	input := g.pickExisting("input")
	for tries := 0; tries < 12; tries++ {
		switch g.T.Draw(5) {
		case 0:
			n := g.fresh("T")
			vs := []string{
				"type " + n + " {\n  a Int\n}\n",
				"tipo " + n + " {\n  a: Int\n}\n",
				"type " + n + " {\n  a: [Int\n}\n",
				"type " + n + " {\n  a: Int\n",
				"enum " + n + " {\n  A B\n",
				"type " + n + " {\n  a(x Int): Int\n}\n",
				"\"open description\ntype " + n + " {\n  a: Int\n}\n",
				"union " + n + " Query\n",
				"type {\n  a: Int\n}\n",
				"directive @" + n + " OBJECT\n",
			}
			i := g.T.Draw(len(vs))
			return Fragment{Kind: fmt.Sprintf("poison:syntax:%d", i), Text: vs[i]}
		case 1:
			n := g.fresh("T")
			nope := g.fresh("Nope")
			vs := []string{
				"type " + n + " {\n  a: " + nope + "\n}\n",
				"type " + n + " @" + nope + " {\n  a: Int\n}\n",
				"union " + n + " = " + nope + "\n",
				"type " + n + " implements " + nope + " {\n  a: Int\n}\n",
				"input " + n + " {\n  a: [" + nope + "!]\n}\n",
				"type " + n + " {\n  a(x: " + nope + "): Int\n}\n",
				"type " + n + " {\n  a: Int @" + nope + "\n}\n",
			}
			i := g.T.Draw(len(vs))
			return Fragment{Kind: fmt.Sprintf("poison:undefined_ref:%d", i), Text: vs[i]}
		case 2:
			if g.GoExtends && obj != nil && g.T.Bool(1, 3) {
				// an extension that carries the @go directive (binding of a Go type),
				// applied, then the document fails in validation: whatever the
				// extension did to the binding has to be undone with the load
				var objs []*TInfo
				for _, o := range g.all("object") {
					has := false
					for _, d := range o.Dirs {
						if d == "go" {
							has = true
						}
					}
					if !has && g.St.ByName[o.Name] != nil {
						objs = append(objs, o)
					}
				}
				if len(objs) > 0 {
					o := objs[g.T.Draw(len(objs))]
					return Fragment{Kind: "poison:failed_extend:go_directive_then_invalid", Mutates: true,
						Text: fmt.Sprintf("extend type %s @go(type: \"Alt%d\") {\n}\ntype %s {\n}\n", o.Name, g.T.Draw(9), g.fresh("T"))}
				}
			}
			if g.T.Bool(1, 8) {
				// an interface the type implements already, named again by an extension
				for _, o := range g.all("object") {
					if g.St.ByName[o.Name] != nil && len(o.Interfaces) > 0 {
						return Fragment{Kind: "poison:failed_extend:interface_implemented_already", Mutates: true,
							Text: fmt.Sprintf("extend type %s implements %s {\n}\n", o.Name, o.Interfaces[0])}
					}
				}
			}
			switch g.T.Draw(8) {
			case 7:
				// an extension of a scalar that is not declared in SDL (built in, or
				// implemented in Go and handed to AddTypes), followed by an extension
				// that fails: whichever of the two the library objects to, nothing of
				// the document may stay
				names := []string{"Int", "Float", "Boolean", "ID", "Time", "Int64", "Float64"}
				if gs := g.pickExisting("goscalar"); gs != nil {
					names = append(names, gs.Name, gs.Name)
				}
				sc := names[g.T.Draw(len(names))]
				d := g.fresh("zs")
				use := "@" + d
				text := fmt.Sprintf("directive @%s(v: Int = 1) on SCALAR\n", d)
				if len(g.St.Dirs) > 0 && g.T.Bool(1, 2) {
					use, text = "@"+g.St.Dirs[g.T.Draw(len(g.St.Dirs))], ""
				}
				return Fragment{Kind: "poison:failed_extend:scalar_not_declared_in_sdl_then_unknown_target", Mutates: true,
					Text: fmt.Sprintf("%sextend scalar %s %s\nextend type %s {\n  a: Int\n}\n", text, sc, use, g.fresh("Nope"))}
			case 0:
				return Fragment{Kind: "poison:failed_extend:unknown_target", Text: "extend type " + g.fresh("Nope") + " {\n  a: Int\n}\n"}
			case 1:
				if obj != nil && len(obj.Fields) > 0 {
					return Fragment{Kind: "poison:failed_extend:dup_field", Mutates: true,
						Text: fmt.Sprintf("extend type %s {\n  %s: Int\n}\n", obj.Name, obj.Fields[0].Name)}
				}
			case 2:
				if obj != nil && len(obj.Fields) > 0 {
					// partially applied extend: a new field is added before the duplicate is hit
					return Fragment{Kind: "poison:failed_extend:partial_dup_field", Mutates: true,
						Text: fmt.Sprintf("extend type %s {\n  %s: Int\n  %s: Int\n}\n", obj.Name, g.fresh("f"), obj.Fields[0].Name)}
				}
			case 3:
				if enum != nil && len(enum.Values) > 0 {
					return Fragment{Kind: "poison:failed_extend:dup_enum_value", Mutates: true,
						Text: fmt.Sprintf("extend enum %s {\n  %s\n  %s\n}\n", enum.Name, g.fresh("V"), enum.Values[0])}
				}
			case 4:
				if union != nil && len(union.Members) > 0 {
					return Fragment{Kind: "poison:failed_extend:dup_union_member", Mutates: true,
						Text: fmt.Sprintf("extend union %s = %s\n", union.Name, union.Members[0])}
				}
			case 5:
				if obj != nil {
					return Fragment{Kind: "poison:failed_extend:kind_mismatch", Text: fmt.Sprintf("extend enum %s {\n  A\n}\n", obj.Name)}
				}
			case 6:
				if input != nil && len(input.Fields) > 0 {
					return Fragment{Kind: "poison:failed_extend:dup_input_field", Mutates: true,
						Text: fmt.Sprintf("extend input %s {\n  %s: Int\n}\n", input.Name, input.Fields[0].Name)}
				}
			}
		case 3:
			n := g.fresh("T")
			switch g.T.Draw(15) {
			case 0:
				return Fragment{Kind: "poison:validation:empty_object", Text: "type " + n + " {\n}\n"}
			case 1:
				return Fragment{Kind: "poison:validation:reserved_type_name", Text: "type __" + n + " {\n  a: Int\n}\n"}
			case 2:
				return Fragment{Kind: "poison:validation:reserved_field_name", Text: "type " + n + " {\n  __a: Int\n}\n"}
			case 3:
				if obj != nil {
					return Fragment{Kind: "poison:validation:non_input_arg", Text: fmt.Sprintf("type %s {\n  a(x: %s): Int\n}\n", n, obj.Name)}
				}
			case 4:
				if input != nil {
					return Fragment{Kind: "poison:validation:non_output_field", Text: fmt.Sprintf("type %s {\n  a: %s\n}\n", n, input.Name)}
				}
			case 5:
				i := g.fresh("I")
				return Fragment{Kind: "poison:validation:interface_not_satisfied",
					Text: fmt.Sprintf("interface %s {\n  need: Int\n}\ntype %s implements %s {\n  other: Int\n}\n", i, n, i)}
			case 6:
				if enum != nil {
					return Fragment{Kind: "poison:validation:union_of_non_object", Text: fmt.Sprintf("union %s = %s\n", n, enum.Name)}
				}
			case 7:
				return Fragment{Kind: "poison:validation:misplaced_directive", Text: "type " + n + " @skip(if: true) {\n  a: Int\n}\n"}
			case 8:
				return Fragment{Kind: "poison:validation:bad_enum_value", Text: "enum " + n + " {\n  true\n}\n"}
			case 9:
				if obj != nil && input != nil {
					// the extend is applied, validation fails afterwards
					return Fragment{Kind: "poison:validation:extend_then_invalid", Mutates: true,
						Text: fmt.Sprintf("extend type %s {\n  %s: %s\n}\n", obj.Name, g.fresh("f"), input.Name)}
				}
			case 10:
				d := g.fresh("d")
				return Fragment{Kind: "poison:validation:directive_loop", Text: fmt.Sprintf("directive @%s(x: Int @%s) on ARGUMENT_DEFINITION\n", d, d)}
			case 11:
				return Fragment{Kind: "poison:validation:directive_default_not_coercible", Text: fmt.Sprintf("directive @%s(x: Int = \"str\") on OBJECT\n", g.fresh("d"))}
			case 12:
				return Fragment{Kind: "poison:validation:directive_bad_location", Text: fmt.Sprintf("directive @%s on NOWHERE\n", g.fresh("d"))}
			case 13:
				if iface := g.pickExisting("interface"); obj != nil && iface != nil && len(iface.Fields) > 0 {
					implemented := false
					for _, i := range obj.Interfaces {
						if i == iface.Name {
							implemented = true
						}
					}
					if !implemented {
						// the interface is added to an existing object that lacks its fields:
						// the extension is applied, validation fails afterwards
						return Fragment{Kind: "poison:validation:extend_implements_unsatisfied", Mutates: true,
							Text: fmt.Sprintf("extend type %s implements %s {\n  %s: Int\n}\n", obj.Name, iface.Name, g.fresh("f"))}
					}
				}
			case 14:
				if len(g.St.Dirs) > 0 && obj != nil {
					// directive use with an argument that cannot be coerced, on an extend of an existing type
					return Fragment{Kind: "poison:validation:extend_bad_directive_argument", Mutates: true,
						Text: fmt.Sprintf("extend type %s @%s(x: \"nan\") {\n}\n", obj.Name, g.St.Dirs[0])}
				}
			}
		case 4:
			switch g.T.Draw(8) {
			case 3:
				// an already loaded scalar declared again, with a description and a
				// directive it did not have
				if sc := g.pickExisting("scalar"); sc != nil {
					du := g.dirUse(sc.Dirs)
					return Fragment{Kind: "poison:duplicate:scalar", Text: fmt.Sprintf("\"declared again %d\"\nscalar %s %s\n", g.T.Draw(99), sc.Name, du)}
				}
			case 4:
				if union != nil && obj != nil {
					return Fragment{Kind: "poison:duplicate:union", Text: fmt.Sprintf("\"again\"\nunion %s = %s\n", union.Name, obj.Name)}
				}
			case 5:
				if input != nil {
					return Fragment{Kind: "poison:duplicate:input", Text: fmt.Sprintf("\"again\"\ninput %s {\n  zz%d: Int = 3\n}\n", input.Name, g.T.Draw(9))}
				}
			case 6:
				if it := g.pickExisting("interface"); it != nil {
					return Fragment{Kind: "poison:duplicate:interface", Text: fmt.Sprintf("\"again\"\ninterface %s {\n  zz%d: Int\n}\n", it.Name, g.T.Draw(9))}
				}
			case 7:
				// a built-in scalar declared again
				return Fragment{Kind: "poison:duplicate:builtin_scalar", Text: fmt.Sprintf("\"mine\"\nscalar %s %s\n", []string{"Int", "String", "ID", "Time"}[g.T.Draw(4)], g.dirUse(nil))}
			case 0:
				if obj != nil {
					return Fragment{Kind: "poison:duplicate:object", Text: fmt.Sprintf("type %s {\n  a: Int\n}\n", obj.Name)}
				}
			case 1:
				if enum != nil {
					return Fragment{Kind: "poison:duplicate:enum", Text: fmt.Sprintf("enum %s {\n  A\n}\n", enum.Name)}
				}
			case 2:
				if len(g.St.Dirs) > 0 {
					return Fragment{Kind: "poison:duplicate:directive", Text: fmt.Sprintf("directive @%s on OBJECT\n", g.St.Dirs[0])}
				}
			}
		}
	}
	return Fragment{Kind: "poison:validation:empty_object", Text: "type " + g.fresh("T") + " {\n}\n"}
}

// PoisonClass extracts the class from a fragment kind ("" when valid).
func PoisonClass(kind string) string {
	if !strings.HasPrefix(kind, "poison:") {
		return ""
	}
	p := strings.SplitN(kind, ":", 3)
	return p[1]
}

// SortedNames is a helper for deterministic iteration.
func SortedNames(m map[string]bool) []string {
	out := make([]string, 0, len(m))
	for k := range m {
		out = append(out, k)
	}
	sort.Strings(out)
	return out
}
