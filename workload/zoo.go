package workload

import (
	"errors"
	"reflect"
	"strconv"
	"strings"
	"time"

	"github.com/uhn/ggql/pkg/ggql"

	"verif/sim/tape"
)

// ZooSDL is the schema of the resolver workloads. Go type names of the neutral
// data equal the GraphQL type names so that reflection can bind by name.
const ZooSDL = `
type Query {
  title: String
  count: Int
  ratio: Float
  flag: Boolean
  size: Size
  keeper(name: String!): Keeper
  keepers: [Keeper]
  animals: [Animal]
  things: [Thing]
  grid: [[Cell]]
  echo(s: String!, n: Int!): String
  tags: [String]
  nums: [Int]
  find(filter: Filter): [Keeper]
  boss: Keeper
  ghost: String
  relay(n: Int!): String
  pick(i: Int!): Thing
  join(words: [String]): String
  span(r: Range): String
  chief: Keeper
  blob(j: Json): String
  tagged(filter: Filter): String
  label: Tag
  labelRef: TagRef
  labelAlso: Tag
  odd: Thing
  stamps: [Time]
  matrix: [[Int]]
  codes: [Int!]
  stash(v: Vault, key: String!): String
  levels: [Size]
  vari(xs: [String]): String
  triple: String
  sized(s: Size, l: [Size]): String
}
type Tag {
  title: String
  artist: String
}
type TagRef {
  title: String
  artist: String
}
scalar Json
directive @tune(opts: [String] = ["a", "b"], r: Range = {lo: 1}, n: Int = 3) on FIELD | FRAGMENT_SPREAD | INLINE_FRAGMENT | QUERY | MUTATION
type Mutation {
  rename(old: String!, new: String!): Keeper
}
interface Animal {
  name: String!
  legs: Int
  call(prefix: String, suffix: String): String
}
type Dog implements Animal {
  name: String!
  legs: Int
  barks: Boolean
  owner: Keeper
  code: Int
  call(prefix: String, suffix: String): String
}
type Bird implements Animal {
  name: String!
  legs: Int
  wingspan: Float
  code: String
  call(prefix: String, suffix: String): String
}
union Thing = Dog | Bird | Keeper | Cell
type Keeper {
  name: String!
  age: Int
  pets: [Animal]
  friend: Keeper
  cells: [[Cell]]
  motto(upper: Boolean!): String
  rank: Size
  dogs: [Dog]
  ghost: Int
  nick(n: Int): String
  code(pad: Boolean!): String
}
type Cell {
  x: Int
  y: Int
  label: String
  code: Float
}
enum Size {
  BIG
  SMALL
}
input Range {
  lo: Int = 0
  hi: Int = 9
  tags: [String] = ["x", "y"]
  inner: Range = {lo: 5, tags: []}
  parts: [Range] = [{hi: 1}, {}]
  steps: [Range!]! = []
}
input Filter {
  minAge: Int = 0
  names: [String] = ["anna", "bert"]
  size: Size
  tag: ID
  limit: Int = 10
  pair: [Int]
}
`

// Strategy of a root.
type Strategy int

const (
	StratReflect Strategy = iota
	StratInterface
	StratAny
	StratAnyWrapped
	// StratMixed mixes strategies inside one graph: the Go types listed in
	// Query.Raw are handed to ggql as they are (bound by reflection), all other
	// objects are wrapped in an INode (ggql.Resolver).
	StratMixed
)

func (s Strategy) String() string {
	return [...]string{"reflection", "interface", "any", "any-with-positions", "mixed"}[s]
}

// FaultPlan makes chosen resolver invocations fail.
type FaultPlan struct {
	// FailAt maps the (1-based) invocation number of a request to a fault kind.
	FailAt map[int]string
	// FailPath maps a response path (canonical JSON, known only to strategies
	// whose nodes carry their position) to a fault kind: every invocation at
	// that path fails.
	FailPath map[string]string
	// Shared is the one error value returned by every site failing with
	// FaultShared.
	Shared *ggql.Error
}

// Fault kinds for resolver invocations.
const (
	FaultError      = "error"                          // plain error
	FaultGGQLError  = "ggql_error"                     // *ggql.Error with extensions
	FaultErrorGroup = "error_group"                    // ggql.Errors with two members
	FaultNthGroup   = "nth_error_group"                // AnyResolver.Nth fails with a ggql.Errors of two members: one entry each, both at the member's index
	FaultNthError   = "nth_error"                      // AnyResolver.Nth error
	FaultBadLeaf    = "bad_leaf"                       // un-coercible leaf value
	FaultGroupExt   = "error_group_with_extensions"    // ggql.Errors whose members are *ggql.Error with extensions
	FaultNestedGrp  = "nested_error_group"             // ggql.Errors{e, ggql.Errors{e, e}}: three entries
	FaultShared     = "shared_ggql_error"              // every failing site of the plan returns the SAME *ggql.Error value (an application sentinel)
	FaultTwinGroup  = "error_group_with_equal_texts"   // ggql.Errors of three members, two of them with the same text and different extensions
	FaultWrapGroup  = "wrapped_error_group"            // fmt.Errorf("ctx: %w", group)-style wrapper around a ggql.Errors of two members
	FaultWrapGGQL   = "wrapped_ggql_error"             // wrapper around a *ggql.Error with extensions
	FaultOwnPath    = "ggql_error_with_own_path"       // a *ggql.Error handed on from elsewhere: wraps ErrResolve, has a Path, Line and Column of its own
	FaultTypedNil   = "typed_nil_with_error"           // the resolver returns its declared nil map / nil pointer together with the error
	FaultOverGroup  = "ggql_error_over_upstream_group" // ONE *ggql.Error with extensions whose Base chain holds a ggql.Errors (a gateway keeping the upstream list): one entry
	FaultWrapPlain  = "wrapped_plain_error"            // fmt.Errorf("...: %w", cause)-style: a plain error that wraps another plain error, no ggql error anywhere in the chain
	FaultPanic      = "panic"                          // the resolver panics (the caller of ggql recovers): histories only
	FaultBadList    = "bad_list_elements"              // a [scalar] field returns []interface{}{ok, bad, ok, bad}: two coercion failures in one list
)

// IsScalarListField tells whether a zoo field is a list of bare scalars.
func IsScalarListField(field string) bool {
	return field == "tags" || field == "nums" || field == "matrix" || field == "codes"
}

// BadListFor is the value a scalar-list field returns under FaultBadList and
// the data expected in the response for it.
func BadListFor(field string) (value []interface{}, expect []interface{}) {
	if field == "nums" || field == "codes" {
		return []interface{}{10, badLeaf{}, 12, badLeaf{}}, []interface{}{10, nil, 12, nil}
	}
	if field == "matrix" {
		// a list of lists: the two bad members sit in different inner lists
		return []interface{}{[]interface{}{1, badLeaf{}, 3}, []interface{}{badLeaf{}, 5}},
			[]interface{}{[]interface{}{1, nil, 3}, []interface{}{nil, 5}}
	}
	return []interface{}{"g0", badLeaf{}, "g2", badLeaf{}}, []interface{}{"g0", nil, "g2", nil}
}

// BadListPaths are the positions of the two bad members of BadListFor(field),
// relative to the field.
func BadListPaths(field string) [2][]interface{} {
	if field == "matrix" {
		return [2][]interface{}{{0, 1}, {1, 0}}
	}
	return [2][]interface{}{{1}, {3}}
}

// Call is one logged resolver invocation.
type Call struct {
	N     int
	Type  string
	Field string
	Args  string
	Path  string // "" when the strategy does not know it
	Leaf  bool
}

// Fired is one injected failure that was actually reached.
type Fired struct {
	N       int
	Path    string
	Kind    string
	Members int // number of error entries the failure must produce
	Tag     string
	Field   string
}

// Tracker counts resolver invocations of one request, injects the faults of a
// plan and keeps the call log. It is request-private (one per resolve call).
type Tracker struct {
	// NoBadLeaf turns un-coercible-leaf faults into plain errors (typed
	// reflection methods cannot return a value of the wrong type).
	NoBadLeaf bool
	Plan      *FaultPlan
	N         int
	Calls     []Call
	Fired     []Fired
}

// wrapErr wraps an error the way fmt.Errorf("...: %w", err) does.
type wrapErr struct {
	msg string
	err error
}

func (w *wrapErr) Error() string { return w.msg + ": " + w.err.Error() }
func (w *wrapErr) Unwrap() error { return w.err }

// ErrInjectedResolve is the base of injected resolver errors.
var ErrInjectedResolve = errors.New("injected resolver failure")

// IsLeafField tells whether a zoo field has a leaf type.
func IsLeafField(typ, field string) bool {
	for _, f := range zooTypes[typ] {
		if f.name == field {
			return f.typ == "" && field != "tags" && field != "nums" && field != "matrix" && field != "codes"
		}
	}
	return false
}

// noteContext records the Context a resolver found on its *ggql.Field (what
// the caller of ggql put there for this call) with the invocation just logged.
func (tr *Tracker) noteContext(ctx interface{}) {
	if tr == nil || ctx == nil || len(tr.Calls) == 0 {
		return
	}
	tr.Calls[len(tr.Calls)-1].Args += " ctx=" + CanonLite(ctx)
}

func (tr *Tracker) enter(typ, field string, args map[string]interface{}, path string) (kind string, err error) {
	if tr == nil {
		return "", nil
	}
	tr.N++
	a := ""
	if len(args) > 0 {
		a = CanonLite(map[string]interface{}(args))
	}
	leaf := IsLeafField(typ, field)
	tr.Calls = append(tr.Calls, Call{N: tr.N, Type: typ, Field: field, Args: a, Path: path, Leaf: leaf})
	if tr.Plan == nil {
		return "", nil
	}
	kind = tr.Plan.FailAt[tr.N]
	if kind == "" && path != "" {
		kind = tr.Plan.FailPath[path]
	}
	if kind == "" {
		return "", nil
	}
	if kind == FaultBadList && (!IsScalarListField(field) || tr.NoBadLeaf || path == "") {
		kind = FaultError
	}
	if kind == FaultBadLeaf && (!leaf || tr.NoBadLeaf) {
		kind = FaultError
	}
	if kind == FaultNthError && typ != "list" {
		kind = FaultError
	}
	if kind == FaultTypedNil && (leaf || typ == "list" || IsScalarListField(field)) {
		kind = FaultError
	}
	if typ == "list" {
		if kind == FaultNthGroup || (kind != FaultNthError && tr.N%3 == 0) {
			kind = FaultNthGroup
		} else {
			kind = FaultNthError
		}
	}
	if kind == FaultNthGroup && typ != "list" {
		kind = FaultError
	}
	tag := "#" + strconv.Itoa(tr.N) + "#"
	f := Fired{N: tr.N, Path: path, Kind: kind, Members: 1, Tag: tag, Field: field}
	defer func() { tr.Fired = append(tr.Fired, f) }()
	switch kind {
	case FaultPanic:
		panic("injected resolver panic " + tag)
	case FaultError:
		return kind, errors.New("injected failure " + tag)
	case FaultGGQLError:
		return kind, &ggql.Error{Base: errors.New("injected ggql failure " + tag), Extensions: map[string]interface{}{"code": "E" + strconv.Itoa(tr.N)}}
	case FaultErrorGroup:
		f.Members = 2
		return kind, ggql.Errors{errors.New("injected member 1 " + tag), errors.New("injected member 2 " + tag)}
	case FaultNthError:
		return kind, errors.New("injected nth failure " + tag)
	case FaultNthGroup:
		f.Members = 2
		return kind, ggql.Errors{errors.New("injected nth member 1 " + tag), errors.New("injected nth member 2 " + tag)}
	case FaultGroupExt:
		f.Members = 2
		return kind, ggql.Errors{
			&ggql.Error{Base: errors.New("injected member 1 " + tag), Extensions: map[string]interface{}{"code": "E" + strconv.Itoa(tr.N) + "m1"}},
			&ggql.Error{Base: errors.New("injected member 2 " + tag), Extensions: map[string]interface{}{"code": "E" + strconv.Itoa(tr.N) + "m2"}},
		}
	case FaultNestedGrp:
		f.Members = 3
		return kind, ggql.Errors{errors.New("injected member 1 " + tag),
			ggql.Errors{errors.New("injected member 2 " + tag), errors.New("injected member 3 " + tag)}}
	case FaultShared:
		if tr.Plan.Shared == nil {
			tr.Plan.Shared = &ggql.Error{Base: errors.New("injected shared failure #shared#"), Extensions: map[string]interface{}{"code": "ES"}}
		}
		f.Tag = "#shared#"
		return kind, tr.Plan.Shared
	case FaultTwinGroup:
		f.Members = 3
		return kind, ggql.Errors{
			&ggql.Error{Base: errors.New("injected twin " + tag), Extensions: map[string]interface{}{"code": "E" + strconv.Itoa(tr.N) + "t1"}},
			&ggql.Error{Base: errors.New("injected twin " + tag), Extensions: map[string]interface{}{"code": "E" + strconv.Itoa(tr.N) + "t2"}},
			errors.New("injected member 3 " + tag),
		}
	case FaultTypedNil:
		return kind, errors.New("injected failure with a typed nil value " + tag)
	case FaultOwnPath:
		return kind, &ggql.Error{Base: &wrapErr{msg: "upstream " + tag, err: ggql.ErrResolve}, Line: 77, Column: 7,
			Path: []interface{}{"upstream", "items", 1, "price"}, Extensions: map[string]interface{}{"code": "E" + strconv.Itoa(tr.N)}}
	case FaultWrapGroup:
		f.Members = 2
		return kind, &wrapErr{msg: "while resolving " + field, err: ggql.Errors{errors.New("injected member 1 " + tag), errors.New("injected member 2 " + tag)}}
	case FaultWrapGGQL:
		return kind, &wrapErr{msg: "while resolving " + field + " " + tag, err: &ggql.Error{Base: errors.New("injected ggql failure " + tag), Extensions: map[string]interface{}{"code": "E" + strconv.Itoa(tr.N)}}}
	case FaultWrapPlain:
		return kind, &wrapErr{msg: "while resolving " + field + " " + tag, err: errors.New("backend said no")}
	case FaultOverGroup:
		return kind, &ggql.Error{Base: &wrapErr{msg: "gateway " + tag, err: ggql.Errors{errors.New("upstream said a"), errors.New("upstream said b")}},
			Extensions: map[string]interface{}{"code": "E" + strconv.Itoa(tr.N)}}
	case FaultBadList:
		f.Members = 2
	}
	return kind, nil
}

// ---------------------------------------------------------------------------
// Neutral data (also the reflection types)

// Query is the query root of the zoo.
type Query struct {
	Title   string
	Count   int
	Ratio   float64
	Flag    bool
	Size    string
	Keepers []*Keeper
	Animals []interface{}
	Things  []interface{}
	Grid    [][]*GridCell
	Tags    []string
	Nums    []int
	Boss    *Keeper
	// AltKeeper registers *Keeper for the type Keeper up front, so that the
	// second Go struct behind that type (Chief) never wins the binding.
	AltKeeper bool
	// Label is served by value under the GraphQL type Tag, LabelRef (a pointer
	// to the same Go struct) under TagRef; Title has a value receiver, Artist a
	// pointer receiver (not in the method set of the value).
	Label    Label
	LabelRef *Label
	// LabelAlso reaches the library as a pointer under the type Tag, which
	// Label serves by value: one GraphQL type in two Go shapes (only the
	// crash-freedom check asks for it; which shape binds first decides the
	// answer for the other).
	LabelAlso *Label
	// Odd is what an application mistake puts behind a union-typed field: a
	// value of an unnamed Go type (a map built from decoded JSON). No member can
	// match it; what the library answers for it depends on which members are
	// bound already, so only fixed requests ask for it and nothing is compared.
	Odd interface{}
	// Stamps / Levels are lists of leaf values whose stored form is not their
	// output form (time.Time, ggql.Symbol); the application hands the same
	// []interface{} to every request.
	// Matrix is a list of lists of scalars, handed out as []interface{} of
	// []interface{}.
	Matrix []interface{}
	// Codes is a list whose members are declared non-null.
	Codes  []interface{}
	Stamps []interface{}
	Levels []interface{}
	// Chief is served by a second Go struct for the GraphQL type Keeper (other
	// field order); only plain struct fields are ever selected beneath it.
	Chief *KeeperAlt

	// GoDirectives makes the schema bind Keeper and Cell with @go directives.
	GoDirectives bool
	// UseListResolver makes the interface strategy return ListResolver values
	// instead of []interface{}.
	UseListResolver bool
	// Raw (mixed roots only) names the Go types that are not wrapped.
	Raw map[string]bool
	// RawSlices (mixed roots only) hands typed slices of raw element types to
	// ggql as they are instead of converting them to []interface{}.
	RawSlices bool
	// NoRegister leaves Dog and Bird unregistered on reflection roots (an
	// application mistake: interface-typed fields then cannot find the concrete
	// type until something else has bound it). Crash checks only.
	NoRegister bool

	// root is the root of the zoo built last over this graph (nested requests
	// of the relay field go there).
	root *ggql.Root

	tr *Tracker
}

// Mutation is the mutation root.
type Mutation struct {
	q *Query
}

// Keeper is a zoo keeper.
type Keeper struct {
	Name   string
	Age    int
	Pets   []interface{}
	Friend *Keeper
	Cells  [][]*GridCell
	Rank   string
	Dogs   []*Dog
	MottoS string

	q *Query
}

// Label is one Go struct behind two GraphQL types, once by value, once by
// pointer.
type Label struct {
	T string
	A string
}

// Title has a value receiver.
func (l Label) Title() string { return "title:" + l.T }

// Artist has a pointer receiver.
func (l *Label) Artist() string { return "artist:" + l.A }

// KeeperAlt is a second Go struct behind the GraphQL type Keeper: the same
// field names in another order (an application with two representations of
// one type, e.g. a database row and a cache entry).
type KeeperAlt struct {
	Rank string
	Age  int
	Note string
	Name string
}

// Dog is an animal.
type Dog struct {
	Name  string
	Legs  int
	Barks bool
	Owner *Keeper
	Code  int
}

// Bird is an animal.
type Bird struct {
	Name     string
	Legs     int
	Wingspan float64
	Code     string
}

// GridCell is a grid cell: the Go type behind the GraphQL type Cell. The names
// differ on purpose, so the binding exists only through RegisterType (or the
// @go directive) and cannot be re-derived from the name once lost.
type GridCell struct {
	X     int
	Y     int
	Label string
	Code  float64
}

// FilterIn is the Go struct registered for the input type Filter on reflection
// and mixed roots (Input.CoerceIn then builds one by reflection).
type FilterIn struct {
	MinAge int
	Names  []string
	Size   string
	Tag    string
	Limit  int
	// Pair is a fixed-size Go array behind a GraphQL list: how many members a
	// request gives is the request's business.
	Pair [2]int
}

// ZooSchema is the schema-level object for reflection roots.
type ZooSchema struct {
	Query    *Query
	Mutation *Mutation
}

// Keeper is the reflection method behind Query.keeper.
func (q *Query) Keeper(name string) (*Keeper, error) {
	if _, err := q.tr.enter("Query", "keeper", map[string]interface{}{"name": name}, ""); err != nil {
		return nil, err
	}
	for _, k := range q.Keepers {
		if k != nil && k.Name == name {
			return k, nil
		}
	}
	return nil, nil
}

// Find is the reflection method behind Query.find.
func (q *Query) Find(filter *FilterIn) ([]*Keeper, error) {
	var a map[string]interface{}
	if filter != nil {
		a = map[string]interface{}{"filter": filterMap(filter)}
	}
	if _, err := q.tr.enter("Query", "find", a, ""); err != nil {
		return nil, err
	}
	min := 0
	if filter != nil {
		min = filter.MinAge
	}
	var out []*Keeper
	for _, k := range q.Keepers {
		if k != nil && k.Age >= min {
			out = append(out, k)
		}
	}
	return out, nil
}

func filterMap(f *FilterIn) map[string]interface{} {
	names := make([]interface{}, len(f.Names))
	for i, n := range f.Names {
		names[i] = n
	}
	return map[string]interface{}{"minAge": f.MinAge, "names": names, "size": f.Size, "tag": f.Tag, "limit": f.Limit}
}

// Relay is the reflection method behind Query.relay: a resolver that issues a
// nested request on the same root (for the same field while n > 0).
func (q *Query) Relay(n int64) (string, error) {
	if _, err := q.tr.enter("Query", "relay", map[string]interface{}{"n": n}, ""); err != nil {
		return "", err
	}
	return relay(q, n), nil
}

func relay(q *Query, n int64) string {
	if n <= 0 || q.root == nil {
		return "bottom"
	}
	if n > 3 {
		n = 3
	}
	return CanonLite(q.root.ResolveString("{ relay(n: "+strconv.FormatInt(n-1, 10)+") title }", "", nil))
}

// Join is the reflection method behind Query.join: a Go method that takes a
// typed slice for a list argument.
func (q *Query) Join(words []string) (string, error) {
	if _, err := q.tr.enter("Query", "join", nil, ""); err != nil {
		return "", err
	}
	return strings.Join(words, "+"), nil
}

// Span is the reflection method behind Query.span: it answers with exactly the
// argument it received (input-object defaults filled in by the library).
func (q *Query) Span(r map[string]interface{}) (string, error) {
	if _, err := q.tr.enter("Query", "span", nil, ""); err != nil {
		return "", err
	}
	return span(r), nil
}

func span(r interface{}) string {
	if m, _ := r.(map[string]interface{}); m != nil {
		return CanonLite(m)
	}
	return "none"
}

// Blob is the reflection method behind Query.blob (argument of a custom scalar
// type: whatever value the request wrote arrives as it is).
func (q *Query) Blob(j interface{}) (string, error) {
	if _, err := q.tr.enter("Query", "blob", nil, ""); err != nil {
		return "", err
	}
	return CanonLite(j), nil
}

// Call is the reflection method behind Dog.call (a field of the interface Animal
// with two arguments).
func (d *Dog) Call(prefix, suffix string) string { return prefix + d.Name + suffix }

// Call is the reflection method behind Bird.call.
func (b *Bird) Call(prefix, suffix string) string { return prefix + b.Name + suffix }

// Tagged is the reflection method behind Query.tagged: a resolver that edits the
// argument it was given in place (the arguments belong to the request) and
// answers with the result.
func (q *Query) Tagged(filter *FilterIn) (string, error) {
	if _, err := q.tr.enter("Query", "tagged", nil, ""); err != nil {
		return "", err
	}
	if filter == nil {
		return "none", nil
	}
	if len(filter.Names) > 0 {
		filter.Names[0] += "+"
	}
	return strings.Join(filter.Names, ","), nil
}

// Vari is behind Query.vari: a variadic method, which the reflection strategy
// refuses (every time it is asked).
func (q *Query) Vari(xs ...string) string { return strings.Join(xs, "/") }

// Triple is behind Query.triple: three return values, refused as well.
func (q *Query) Triple() (string, int, error) { return "t", 3, nil }

// Pick is the reflection method behind Query.pick.
func (q *Query) Pick(i int64) (interface{}, error) {
	if _, err := q.tr.enter("Query", "pick", map[string]interface{}{"i": i}, ""); err != nil {
		return nil, err
	}
	return pick(q, i), nil
}

func pick(q *Query, i int64) interface{} {
	if len(q.Things) == 0 {
		return nil
	}
	if i < 0 {
		i = -i
	}
	return q.Things[int(i)%len(q.Things)]
}

// Nick is the reflection method behind Keeper.nick: the schema argument is
// nullable, the Go parameter cannot take null.
func (k *Keeper) Nick(n int64) string {
	return "nick" + strconv.FormatInt(n, 10) + k.Name
}

// Code is the reflection method behind Keeper.code (the other union members
// define code as a plain field of another type).
func (k *Keeper) Code(pad bool) string {
	if pad {
		return "K--" + k.Name
	}
	return "K" + k.Name
}

// Echo is the reflection method behind Query.echo.
func (q *Query) Echo(s string, n int64) (string, error) {
	if _, err := q.tr.enter("Query", "echo", map[string]interface{}{"s": s, "n": n}, ""); err != nil {
		return "", err
	}
	return s + ":" + strconv.FormatInt(n, 10), nil
}

// EchoRev serves Query.echo too, with its parameters in the other order: an
// application that registers it late (Root.RegisterField with an explicit
// argument order) changes how the field is served from then on.
func (q *Query) EchoRev(n int64, s string) (string, error) {
	if _, err := q.tr.enter("Query", "echo", map[string]interface{}{"s": s, "n": n, "rev": true}, ""); err != nil {
		return "", err
	}
	return strconv.FormatInt(n, 10) + "<-" + s, nil
}

// Motto is the reflection method behind Keeper.motto.
func (k *Keeper) Motto(upper bool) (string, error) {
	var tr *Tracker
	if k.q != nil {
		tr = k.q.tr
	}
	if _, err := tr.enter("Keeper", "motto", map[string]interface{}{"upper": upper}, ""); err != nil {
		return "", err
	}
	if upper {
		return strings.ToUpper(k.MottoS), nil
	}
	return k.MottoS, nil
}

// Rename is the reflection method behind Mutation.rename.
func (m *Mutation) Rename(old, new string) (*Keeper, error) {
	if _, err := m.q.tr.enter("Mutation", "rename", map[string]interface{}{"old": old, "new": new}, ""); err != nil {
		return nil, err
	}
	for _, k := range m.q.Keepers {
		if k != nil && k.Name == old {
			// the zoo is read-only in concurrent workloads: renaming returns the
			// keeper without changing it
			return k, nil
		}
	}
	return nil, nil
}

// GenZoo draws a data graph.
func GenZoo(t *tape.Tape) *Query {
	q := &Query{GoDirectives: t.Bool(1, 3), Title: "zoo" + strconv.Itoa(t.Draw(100)), Count: t.Draw(1000), Ratio: float64(t.Draw(100)) / 4, Flag: t.Bool(1, 2), Size: []string{"BIG", "SMALL"}[t.Draw(2)]}
	nk := 1 + t.Draw(4)
	for i := 0; i < nk; i++ {
		k := &Keeper{Name: "k" + strconv.Itoa(i), Age: 20 + t.Draw(50), Rank: []string{"BIG", "SMALL"}[t.Draw(2)], MottoS: "motto" + strconv.Itoa(i), q: q}
		np := t.Draw(4)
		for j := 0; j < np; j++ {
			if t.Bool(1, 2) {
				d := &Dog{Name: "d" + strconv.Itoa(i) + strconv.Itoa(j), Legs: 4, Barks: t.Bool(1, 2), Owner: k, Code: 100*i + j}
				k.Pets = append(k.Pets, d)
				k.Dogs = append(k.Dogs, d)
			} else {
				k.Pets = append(k.Pets, &Bird{Name: "b" + strconv.Itoa(i) + strconv.Itoa(j), Legs: 2, Wingspan: float64(t.Draw(30)) / 2, Code: "B" + strconv.Itoa(i) + strconv.Itoa(j)})
			}
		}
		for r := 0; r < t.Draw(3); r++ {
			var row []*GridCell
			for c := 0; c < t.Draw(3); c++ {
				row = append(row, &GridCell{X: r, Y: c, Label: "c" + strconv.Itoa(r) + strconv.Itoa(c)})
			}
			k.Cells = append(k.Cells, row)
		}
		q.Keepers = append(q.Keepers, k)
	}
	for i, k := range q.Keepers {
		if t.Bool(2, 3) {
			k.Friend = q.Keepers[(i+1+t.Draw(nk))%nk] // may be a cycle or a self reference
		}
	}
	if t.Bool(1, 5) {
		q.Keepers = append(q.Keepers, nil)
	}
	q.Boss = q.Keepers[0]
	q.Label = Label{T: "t" + q.Title, A: "a" + q.Title}
	q.LabelRef = &Label{T: "rt" + q.Title, A: "ra" + q.Title}
	q.LabelAlso = &Label{T: "at" + q.Title, A: "aa" + q.Title}
	q.Odd = map[string]interface{}{"name": "odd"}
	q.Matrix = []interface{}{[]interface{}{1, 2, 3}, []interface{}{4, 5}}
	q.Codes = []interface{}{7, 8, 9, 10}
	q.Stamps = []interface{}{time.Unix(1600000000, 0).UTC(), time.Unix(1600000500, 0).In(time.FixedZone("east", 3600)), nil}
	q.Levels = []interface{}{ggql.Symbol("BIG"), "SMALL", ggql.Symbol("SMALL")}
	q.Chief = &KeeperAlt{Rank: q.Boss.Rank, Age: q.Boss.Age + 1, Note: "alt", Name: "chief-" + q.Boss.Name}
	for _, k := range q.Keepers {
		if k == nil {
			continue
		}
		for _, p := range k.Pets {
			q.Animals = append(q.Animals, p)
			q.Things = append(q.Things, p)
		}
		q.Things = append(q.Things, k)
	}
	q.Things = append(q.Things, &GridCell{X: 9, Y: 9, Label: "lone", Code: 9.5})
	for r := 0; r < 1+t.Draw(3); r++ {
		var row []*GridCell
		for c := 0; c < t.Draw(4); c++ {
			row = append(row, &GridCell{X: r, Y: c, Label: "g" + strconv.Itoa(r) + strconv.Itoa(c)})
		}
		q.Grid = append(q.Grid, row)
	}
	if t.Bool(1, 3) {
		// shared objects: the same pointer at more than one index of a list
		// (the one author of several comments)
		if n := len(q.Animals); n > 0 {
			q.Animals = append(q.Animals, q.Animals[t.Draw(n)])
		}
		if n := len(q.Things); n > 0 {
			q.Things = append(q.Things, q.Things[t.Draw(n)], q.Things[t.Draw(n)])
		}
		if k := q.Keepers[0]; k != nil && len(k.Pets) > 0 {
			k.Pets = append(k.Pets, k.Pets[t.Draw(len(k.Pets))])
		}
		if n := len(q.Grid); n > 0 && len(q.Grid[0]) > 0 {
			q.Grid[0] = append(q.Grid[0], q.Grid[0][0])
		}
		if n := len(q.Keepers); n > 1 && q.Keepers[n-1] != nil {
			q.Keepers = append(q.Keepers, q.Keepers[t.Draw(n-1)])
		}
	}
	for i := 0; i < t.Draw(4); i++ {
		q.Tags = append(q.Tags, "tag"+strconv.Itoa(i))
		q.Nums = append(q.Nums, i*7)
	}
	return q
}

// AltRequests select plain fields of Keeper through both Go structs that serve
// it (boss, keepers: Keeper; chief: KeeperAlt, other field order).
// MetaTwinRequests are introspection requests that are textually equal up to
// the body of a named fragment.
var MetaTwinRequests = []string{
	"{ __schema { ...MetaS } }\nfragment MetaS on __Schema { queryType { name } }\n",
	"{ __schema { ...MetaS } }\nfragment MetaS on __Schema { directives { name } }\n",
	"{ __schema { ...MetaS } }\nfragment MetaS on __Schema { types { name kind } mutationType { name } }\n",
	"{ __schema { ...MetaS } }\nfragment MetaS on __Schema { queryType { kind fields { name } } }\n",
	"{ __type(name: \"Keeper\") { ...MetaT } }\nfragment MetaT on __Type { kind name }\n",
	"{ __type(name: \"Keeper\") { ...MetaT } }\nfragment MetaT on __Type { fields { name type { name kind } } }\n",
}

// LabelRequests select the two GraphQL types served by one Go struct, by value
// and by pointer.
var LabelRequests = []string{
	"{ label { title } }",
	"{ labelRef { title artist } }",
	"{ label { title artist } }",
	"{ labelRef { artist } l: label { title } }",
	"{ a: labelRef { title } }",
	// the type Tag again, this time handed out as a pointer: one GraphQL type
	// in two Go shapes
	"{ labelAlso { title } }",
	"{ labelAlso { title artist } }",
	"{ p: labelAlso { artist } v: label { title } }",
}

// OddRequests: a union-typed field that yields a value of an unnamed Go type,
// next to ordinary requests for the members of that union.
var OddRequests = []string{
	"{ odd { __typename } }",
	"{ odd { ... on Dog { name } } title }",
	"{ things { ... on Dog { name } ... on Bird { name } } }",
	"{ things { ... on Keeper { name } ... on Cell { label } } }",
	"{ animals { name } }",
	"{ keepers { name pets { name } } }",
	"{ grid { label } }",
}

var AltRequests = []string{
	"{ chief { name age rank } }",
	"{ boss { name age rank } }",
	"{ c: chief { rank name } b: boss { rank name age } }",
	"{ keepers { age name } chief { age name } }",
}

// CycleRequests walk the cycles of the zoo's type graph from different ends
// (Keeper -> Dog -> Keeper through dogs / owner, pets / owner, friend): on a
// cold root two of them bind the same types in opposite orders.
var CycleRequests = []string{
	"{ keepers { dogs { name } } }",
	"{ keepers { dogs { owner { name } } } }",
	"{ animals { ... on Dog { owner { name } } } }",
	"{ things { ... on Dog { owner { age } } } }",
	"{ boss { pets { ... on Dog { owner { friend { name } } } } } }",
	"{ animals { name ... on Dog { barks owner { dogs { name } } } } }",
	"{ keepers { friend { dogs { barks } } } }",
	"{ things { ... on Keeper { dogs { owner { name } } } ... on Dog { owner { name } } } }",
}

// DrawMixed draws the raw / wrapped assignment of a mixed root.
func DrawMixed(t *tape.Tape, q *Query) {
	q.Raw = map[string]bool{}
	for _, n := range []string{"Query", "Keeper", "Dog", "Bird", "Cell"} {
		if t.Bool(2, 5) {
			q.Raw[n] = true
		}
	}
	if t.Bool(1, 4) {
		// all union members raw under a wrapped query root: union dispatch by Go type
		q.Raw = map[string]bool{"Keeper": true, "Dog": true, "Bird": true, "Cell": true}
	}
	q.RawSlices = t.Bool(1, 2)
	q.UseListResolver = t.Bool(1, 3)
}

// zooField is the harness-side field accessor behind the interface and any
// strategies: one place that knows the neutral data.
func zooField(q *Query, obj interface{}, name string, args map[string]interface{}) (interface{}, error) {
	switch o := obj.(type) {
	case *ZooSchema:
		switch name {
		case "query":
			return o.Query, nil
		case "mutation":
			return o.Mutation, nil
		}
	case *Mutation:
		if name == "rename" {
			oldN, _ := args["old"].(string)
			for _, k := range o.q.Keepers {
				if k != nil && k.Name == oldN {
					return k, nil
				}
			}
			return nil, nil
		}
	case *Query:
		switch name {
		case "title":
			return o.Title, nil
		case "count":
			return o.Count, nil
		case "ratio":
			return o.Ratio, nil
		case "flag":
			return o.Flag, nil
		case "size":
			return o.Size, nil
		case "keeper":
			n, _ := args["name"].(string)
			for _, k := range o.Keepers {
				if k != nil && k.Name == n {
					return k, nil
				}
			}
			return nil, nil
		case "keepers":
			return o.Keepers, nil
		case "animals":
			return o.Animals, nil
		case "things":
			return o.Things, nil
		case "grid":
			return o.Grid, nil
		case "echo":
			s, _ := args["s"].(string)
			return s + ":" + CanonLite(args["n"]), nil
		case "tags":
			return o.Tags, nil
		case "nums":
			return o.Nums, nil
		case "boss":
			return o.Boss, nil
		case "chief":
			return o.Chief, nil
		case "label":
			l := o.Label
			return &l, nil
		case "labelRef":
			return o.LabelRef, nil
		case "labelAlso":
			return o.LabelAlso, nil
		case "odd":
			return o.Odd, nil
		case "matrix":
			return o.Matrix, nil
		case "codes":
			return o.Codes, nil
		case "stash":
			return "stash:" + CanonLite(map[string]interface{}(args)), nil
		case "stamps":
			return o.Stamps, nil
		case "levels":
			return o.Levels, nil
		case "relay":
			return relay(o, toInt64(args["n"])), nil
		case "pick":
			return pick(o, toInt64(args["i"])), nil
		case "span":
			return span(args["r"]), nil
		case "blob":
			return CanonLite(args["j"]), nil
		case "sized":
			return "sized:" + CanonLite(map[string]interface{}(args)), nil
		case "vari":
			return nil, errors.New("zoo: vari cannot be served")
		case "triple":
			return nil, errors.New("zoo: triple cannot be served")
		case "tagged":
			switch f := args["filter"].(type) {
			case *FilterIn:
				return o.Tagged(f)
			case map[string]interface{}:
				l, _ := f["names"].([]interface{})
				if len(l) > 0 {
					if s0, ok := l[0].(string); ok {
						l[0] = s0 + "+"
					}
				}
				out := ""
				for i, x := range l {
					if i > 0 {
						out += ","
					}
					out += CanonLite(x)
				}
				return out, nil
			}
			return "none", nil
		case "join":
			l, _ := args["words"].([]interface{})
			out := ""
			for i, w := range l {
				if i > 0 {
					out += "+"
				}
				if sw, ok := w.(string); ok {
					out += sw
				}
			}
			return out, nil
		case "find":
			min := 0
			if fi, _ := args["filter"].(*FilterIn); fi != nil {
				min = fi.MinAge
			}
			if f, _ := args["filter"].(map[string]interface{}); f != nil {
				switch m := f["minAge"].(type) {
				case int32:
					min = int(m)
				case int64:
					min = int(m)
				case int:
					min = m
				}
			}
			var out []*Keeper
			for _, k := range o.Keepers {
				if k != nil && k.Age >= min {
					out = append(out, k)
				}
			}
			return out, nil
		}
	case *Keeper:
		switch name {
		case "name":
			return o.Name, nil
		case "age":
			return o.Age, nil
		case "pets":
			return o.Pets, nil
		case "friend":
			return o.Friend, nil
		case "cells":
			return o.Cells, nil
		case "rank":
			return o.Rank, nil
		case "dogs":
			return o.Dogs, nil
		case "motto":
			if up, _ := args["upper"].(bool); up {
				return strings.ToUpper(o.MottoS), nil
			}
			return o.MottoS, nil
		case "nick":
			if args["n"] == nil {
				return "nick-" + o.Name, nil
			}
			return o.Nick(toInt64(args["n"])), nil
		case "code":
			pad, _ := args["pad"].(bool)
			return o.Code(pad), nil
		}
	case *Label:
		switch name {
		case "title":
			return o.Title(), nil
		case "artist":
			return o.Artist(), nil
		}
	case *KeeperAlt:
		switch name {
		case "name":
			return o.Name, nil
		case "age":
			return o.Age, nil
		case "rank":
			return o.Rank, nil
		}
	case *Dog:
		switch name {
		case "name":
			return o.Name, nil
		case "legs":
			return o.Legs, nil
		case "barks":
			return o.Barks, nil
		case "owner":
			return o.Owner, nil
		case "code":
			return o.Code, nil
		case "call":
			p, _ := args["prefix"].(string)
			sf, _ := args["suffix"].(string)
			return o.Call(p, sf), nil
		}
	case *Bird:
		switch name {
		case "name":
			return o.Name, nil
		case "legs":
			return o.Legs, nil
		case "wingspan":
			return o.Wingspan, nil
		case "code":
			return o.Code, nil
		case "call":
			p, _ := args["prefix"].(string)
			sf, _ := args["suffix"].(string)
			return o.Call(p, sf), nil
		}
	case *GridCell:
		switch name {
		case "x":
			return o.X, nil
		case "y":
			return o.Y, nil
		case "label":
			return o.Label, nil
		case "code":
			return o.Code, nil
		}
	}
	return nil, errors.New("zoo: no field " + name + " on " + reflect.TypeOf(obj).String())
}

func toInt64(v interface{}) int64 {
	switch n := v.(type) {
	case int:
		return int64(n)
	case int32:
		return int64(n)
	case int64:
		return n
	}
	return 0
}

func typeNameOf(obj interface{}) string {
	t := reflect.TypeOf(obj)
	for t != nil && t.Kind() == reflect.Ptr {
		t = t.Elem()
	}
	if t == nil {
		return "nil"
	}
	return gqlName(t.Name())
}

// gqlName maps a Go type name of the zoo to its GraphQL type name.
func gqlName(goName string) string {
	if goName == "GridCell" {
		return "Cell"
	}
	if goName == "KeeperAlt" {
		return "Keeper"
	}
	if goName == "Label" {
		return "Tag"
	}
	return goName
}

// isNilPtr reports typed nil pointers (which must stay nil when wrapped).
func isNilPtr(v interface{}) bool {
	if v == nil {
		return true
	}
	rv := reflect.ValueOf(v)
	return rv.Kind() == reflect.Ptr && rv.IsNil()
}

// ---------------------------------------------------------------------------
// Interface strategy: every object is wrapped in an INode.

// INode implements ggql.Resolver over a neutral object. It carries the response
// path at which it was produced, so the harness knows the position of every
// resolver invocation independently of the library.
type INode struct {
	q    *Query
	v    interface{}
	path []interface{}
}

// IList implements ggql.ListResolver over a neutral slice.
type IList struct {
	q    *Query
	rv   reflect.Value
	path []interface{}
}

func extend(path []interface{}, x interface{}) []interface{} {
	out := make([]interface{}, len(path)+1)
	copy(out, path)
	out[len(path)] = x
	return out
}

func wrapI(q *Query, v interface{}, path []interface{}, useList bool) interface{} {
	if isNilPtr(v) {
		return nil
	}
	rv := reflect.ValueOf(v)
	switch rv.Kind() {
	case reflect.Ptr:
		if rv.Elem().Kind() == reflect.Struct {
			if q.Raw[gqlName(rv.Elem().Type().Name())] {
				return v // mixed root: this type is bound by reflection
			}
			return &INode{q: q, v: v, path: path}
		}
	case reflect.Slice:
		et := rv.Type().Elem()
		if et.Kind() == reflect.String || et.Kind() == reflect.Int {
			return v // typed scalar slices are handled by ggql itself
		}
		if q.RawSlices && et.Kind() == reflect.Ptr && q.Raw[gqlName(et.Elem().Name())] {
			return v // typed slice of a raw type: ggql's reflect slice path
		}
		if useList {
			return &IList{q: q, rv: rv, path: path}
		}
		out := make([]interface{}, rv.Len())
		for i := range out {
			out[i] = wrapI(q, rv.Index(i).Interface(), extend(path, i), useList)
		}
		return out
	}
	return v
}

// Len implements ggql.ListResolver.
func (l *IList) Len() int { return l.rv.Len() }

// Nth implements ggql.ListResolver.
func (l *IList) Nth(i int) interface{} {
	return wrapI(l.q, l.rv.Index(i).Interface(), extend(l.path, i), true)
}

func fieldKey(field *ggql.Field) string {
	if field.Alias != "" {
		return field.Alias
	}
	return field.Name
}

// Resolve implements ggql.Resolver.
func (n *INode) Resolve(field *ggql.Field, args map[string]interface{}) (interface{}, error) {
	tr := n.q.tr
	path := n.path
	if _, isSchema := n.v.(*ZooSchema); !isSchema {
		path = extend(n.path, fieldKey(field))
	}
	ps := ""
	if tr != nil {
		ps = CanonLite(path)
	}
	kind, err := tr.enter(typeNameOf(n.v), field.Name, args, ps)
	tr.noteContext(field.Context)
	if err != nil {
		if kind == FaultTypedNil {
			// "var rec map[string]interface{}; return rec, err"
			if len(ps)%2 == 0 {
				return map[string]interface{}(nil), err
			}
			return (*Keeper)(nil), err
		}
		return nil, err
	}
	v, err := zooField(n.q, n.v, field.Name, args)
	if err != nil {
		return nil, err
	}
	if kind == FaultBadLeaf {
		return badLeaf{}, nil
	}
	if kind == FaultBadList {
		bl, _ := BadListFor(field.Name)
		return bl, nil
	}
	return wrapI(n.q, v, path, n.q.UseListResolver), nil
}

// vaultScalar is a scalar implemented in Go whose input coercion panics for the
// value "boom".
type vaultScalar struct {
	ggql.Scalar
}

// CoerceIn implements ggql.InCoercer.
func (t *vaultScalar) CoerceIn(v interface{}) (interface{}, error) {
	if s, ok := v.(string); ok && s == "boom" {
		panic("zoo: the Vault scalar cannot take this value")
	}
	return v, nil
}

// CoerceOut implements ggql.OutCoercer.
func (t *vaultScalar) CoerceOut(v interface{}) (interface{}, error) { return v, nil }

type badLeaf struct{}

// ---------------------------------------------------------------------------
// Any strategy

// ZooAny implements ggql.AnyResolver over the neutral data. With Wrap set every
// object and list handed to ggql is a position-carrying wrapper (ANode / AList),
// which lets the harness key faults by response path; unions then cannot be
// bound (one Go type for everything), so wrapped roots avoid union fields.
type ZooAny struct {
	Q    *Query
	Wrap bool
}

// ANode is a position-carrying object of the wrapped any strategy.
type ANode struct {
	v    interface{}
	path []interface{}
}

// AList is a position-carrying list of the wrapped any strategy.
type AList struct {
	rv   reflect.Value
	path []interface{}
}

func wrapA(v interface{}, path []interface{}) interface{} {
	if isNilPtr(v) {
		return nil
	}
	rv := reflect.ValueOf(v)
	switch rv.Kind() {
	case reflect.Ptr:
		if rv.Elem().Kind() == reflect.Struct {
			return &ANode{v: v, path: path}
		}
	case reflect.Slice:
		et := rv.Type().Elem()
		if et.Kind() == reflect.String || et.Kind() == reflect.Int {
			return v
		}
		return &AList{rv: rv, path: path}
	}
	return v
}

// Resolve implements ggql.AnyResolver.
func (a *ZooAny) Resolve(obj interface{}, field *ggql.Field, args map[string]interface{}) (interface{}, error) {
	tr := a.Q.tr
	ps := ""
	var path []interface{}
	if an, _ := obj.(*ANode); an != nil {
		obj = an.v
		path = an.path
		if _, isSchema := obj.(*ZooSchema); !isSchema {
			path = extend(an.path, fieldKey(field))
		}
		if tr != nil {
			ps = CanonLite(path)
		}
	}
	kind, err := tr.enter(typeNameOf(obj), field.Name, args, ps)
	tr.noteContext(field.Context)
	if err != nil {
		if kind == FaultTypedNil {
			if tr.N%2 == 0 {
				return map[string]interface{}(nil), err
			}
			return (*Keeper)(nil), err
		}
		return nil, err
	}
	v, err := zooField(a.Q, obj, field.Name, args)
	if err != nil {
		return nil, err
	}
	if kind == FaultBadLeaf {
		return badLeaf{}, nil
	}
	if kind == FaultBadList {
		bl, _ := BadListFor(field.Name)
		return bl, nil
	}
	if isNilPtr(v) {
		return nil, nil
	}
	if a.Wrap {
		return wrapA(v, path), nil
	}
	return v, nil
}

// Len implements ggql.AnyResolver.
func (a *ZooAny) Len(list interface{}) int {
	if al, _ := list.(*AList); al != nil {
		return al.rv.Len()
	}
	rv := reflect.ValueOf(list)
	if rv.IsValid() && rv.Kind() == reflect.Slice {
		return rv.Len()
	}
	return 0
}

// Nth implements ggql.AnyResolver.
func (a *ZooAny) Nth(list interface{}, i int) (interface{}, error) {
	tr := a.Q.tr
	var path []interface{}
	rv := reflect.ValueOf(list)
	if al, _ := list.(*AList); al != nil {
		rv = al.rv
		path = extend(al.path, i)
	}
	if tr != nil && tr.Plan != nil {
		ps := ""
		if path != nil {
			ps = CanonLite(path)
		}
		if _, err := tr.enter("list", "nth", map[string]interface{}{"i": i}, ps); err != nil {
			return nil, err
		}
	}
	if rv.IsValid() && rv.Kind() == reflect.Slice && 0 <= i && i < rv.Len() {
		v := rv.Index(i).Interface()
		if isNilPtr(v) {
			return nil, nil
		}
		if path != nil {
			return wrapA(v, path), nil
		}
		return v, nil
	}
	return nil, errors.New("not a list or out of range")
}

// ---------------------------------------------------------------------------
// Roots

// Zoo is a root over a data graph with one strategy.
type Zoo struct {
	Root  *ggql.Root
	Q     *Query
	Strat Strategy
}

// ZooOpt are construction options of reflection roots.
type ZooOpt struct {
	// Register Dog and Bird with RegisterType (needed for interface-typed
	// fields under reflection); the others are bound lazily, by name.
	RegisterAnimals bool
}

// NewZoo builds a cold root (nothing lazily bound yet).
func NewZoo(q *Query, strat Strategy) (*Zoo, error) {
	z := &Zoo{Q: q, Strat: strat}
	defer func() { q.root = z.Root }()
	sch := &ZooSchema{Query: q, Mutation: &Mutation{q: q}}
	switch strat {
	case StratReflect:
		z.Root = ggql.NewRoot(sch)
	case StratInterface, StratMixed:
		z.Root = ggql.NewRoot(&INode{q: q, v: sch, path: []interface{}{}})
	case StratAny:
		z.Root = ggql.NewRoot(sch)
		z.Root.AnyResolver = &ZooAny{Q: q}
	case StratAnyWrapped:
		z.Root = ggql.NewRoot(&ANode{v: sch, path: []interface{}{}})
		z.Root.AnyResolver = &ZooAny{Q: q, Wrap: true}
	}
	sdl := ZooSDL
	if q.GoDirectives {
		// bind two union members through the @go directive instead of by name
		// (the other branch of metaCheck): full path + type name, and bare name
		sdl = strings.Replace(sdl, "type Keeper {", "type Keeper @go(type: \"verif/workload.Keeper\") {", 1)
		sdl = strings.Replace(sdl, "type Cell {", "type Cell @go(type: \"GridCell\") {", 1)
	}
	// the scalar Vault is implemented in Go by the application (its CoerceIn
	// panics for one particular value: an application bug the caller of ggql
	// recovers from, as an HTTP server does)
	if err := z.Root.AddTypes(&vaultScalar{ggql.Scalar{Base: ggql.Base{N: "Vault"}}}); err != nil {
		return nil, err
	}
	if err := z.Root.ParseString(sdl); err != nil {
		return nil, err
	}
	if !q.GoDirectives && !q.NoRegister {
		// the Go type behind Cell has another name: bound by registration only
		if err := z.Root.RegisterType(&GridCell{}, "Cell"); err != nil {
			return nil, err
		}
	}
	if q.AltKeeper {
		if err := z.Root.RegisterType(&Keeper{}, "Keeper"); err != nil {
			return nil, err
		}
	}
	if strat == StratReflect || strat == StratMixed {
		if err := z.Root.RegisterType(&FilterIn{}, "Filter"); err != nil {
			return nil, err
		}
		if q.NoRegister {
			return z, nil
		}
		if err := z.Root.RegisterType(&Dog{}, "Dog"); err != nil {
			return nil, err
		}
		if err := z.Root.RegisterType(&Bird{}, "Bird"); err != nil {
			return nil, err
		}
	}
	return z, nil
}

// SetTracker installs the request-private tracker (sequential workloads only).
func (z *Zoo) SetTracker(tr *Tracker) { z.Q.tr = tr }
