package workload

import "strconv"

func strconvQuote(s string) string  { return strconv.Quote(s) }
func strconvItoa(i int64) string    { return strconv.FormatInt(i, 10) }
func strconvFloat(f float64) string { return strconv.FormatFloat(f, 'g', -1, 64) }
