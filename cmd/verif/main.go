// Command verif runs the deterministic-simulation checks.
//
//	verif check <id> [--tier quick|thorough] [--seed N] [--workers N]
//	verif worker <id> --tier T --seed N --worker W --of N      (internal)
//	verif replay <file>
package main

import (
	"encoding/json"
	"flag"
	"fmt"
	"os"
	"runtime"
	"strconv"
	"strings"

	"verif/checks"
	"verif/sim/core"
	"verif/sim/sched"
	"verif/sim/tape"
)

func main() {
	if len(os.Args) < 3 {
		fmt.Println("usage: verif check|worker|replay ...")
		os.Exit(2)
	}
	cmd := os.Args[1]
	switch cmd {
	case "replay":
		rf, err := core.ReadReplay(os.Args[2])
		if err != nil {
			fmt.Println("FATAL", err)
			os.Exit(2)
		}
		c := checks.Get(rf.Property)
		if c == nil {
			fmt.Println("FATAL unknown property (or not built into this binary):", rf.Property)
			os.Exit(2)
		}
		os.Exit(core.RunReplay(c, rf))
	case "racecheck":
		// self-test of the race oracle (race build only)
		if !sched.RaceBuild {
			fmt.Println("FATAL racecheck needs the -race build")
			os.Exit(2)
		}
		clean, hits := sched.SelfCheck(200)
		fmt.Printf("race oracle self-test: correctly locked workload: %d reports in 200 seeds (must be 0); one unlocked access: reported in %d of 200 seeds (must be >= 150)\n", clean, hits)
		if clean != 0 || hits < 150 {
			os.Exit(2)
		}
		os.Exit(0)
	case "sigs":
		// verif sigs <id> <seed> <runs> [tier]: one line per run with everything
		// that must be a pure function of the tape (determinism self-test)
		c := checks.Get(os.Args[2])
		if c == nil {
			fmt.Println("FATAL unknown property (or not built into this binary):", os.Args[2])
			os.Exit(2)
		}
		seed, _ := strconv.ParseUint(os.Args[3], 10, 64)
		n, _ := strconv.Atoi(os.Args[4])
		tier := "quick"
		if len(os.Args) > 5 {
			tier = os.Args[5]
		}
		for i := 0; i < n; i++ {
			rs := tape.Mix(seed, uint64(i))
			tp := tape.New(rs)
			res := c.Run(tp, core.RunOpt{Tier: tier})
			var cls []string
			for _, v := range res.Violations {
				if !strings.HasPrefix(v.Class, "race:") {
					cls = append(cls, v.Class)
				}
			}
			fmt.Printf("%d %d sig=%016x evals=%d steps=%d tape=%d classes=%v\n", i, rs, res.Sig, res.Evaluations, res.Steps, tp.Len(), cls)
		}
		os.Exit(0)
	case "one":
		// debugging aid: verif one <id> <run-seed> [tier]
		c := checks.Get(os.Args[2])
		rs, _ := strconv.ParseUint(os.Args[3], 10, 64)
		tier := "quick"
		if len(os.Args) > 4 {
			tier = os.Args[4]
		}
		tp := tape.New(rs)
		if len(os.Args) > 5 {
			var vals []uint64
			for _, x := range strings.Split(os.Args[5], ",") {
				v, _ := strconv.ParseUint(x, 10, 64)
				vals = append(vals, v)
			}
			tp = tape.Replay(vals)
		}
		res := c.Run(tp, core.RunOpt{Tier: tier, WantSample: true, Replay: true})
		b, _ := json.MarshalIndent(res, "", " ")
		fmt.Println(string(b))
		os.Exit(0)
	case "check", "worker":
		id := os.Args[2]
		fs := flag.NewFlagSet(cmd, flag.ExitOnError)
		tier := fs.String("tier", envOr("VERIF_TIER", "quick"), "quick|thorough")
		seedS := fs.String("seed", envOr("VERIF_SEED", "1"), "seed")
		workers := fs.Int("workers", runtime.NumCPU(), "worker processes")
		worker := fs.Int("worker", 0, "worker index")
		of := fs.Int("of", 1, "worker count")
		secs := fs.Float64("secs", 0, "override exploration seconds per worker")
		runs := fs.Int("runs", 0, "override max total runs")
		_ = fs.Parse(os.Args[3:])
		seed, err := strconv.ParseUint(*seedS, 10, 64)
		if err != nil {
			// accept negative / odd seeds by hashing the text
			seed = core.Hash64(*seedS)
		}
		c := checks.Get(id)
		if c == nil {
			fmt.Println("FATAL unknown property (or not built into this binary):", id)
			os.Exit(2)
		}
		b := checks.BudgetFor(id, *tier)
		if *secs > 0 {
			b.Secs = *secs
		}
		if s := os.Getenv("VERIF_SECS"); s != "" && *secs == 0 {
			if f, e := strconv.ParseFloat(s, 64); e == nil {
				b.Secs = f
			}
		}
		if *runs > 0 {
			b.MaxRuns = *runs
		}
		if cmd == "worker" {
			os.Exit(core.RunWorker(c, *tier, seed, *worker, *of, b))
		}
		os.Exit(core.RunMaster(c, *tier, seed, *workers, b, checks.WorkerEnv(id), checks.BuildInfo()))
	}
	fmt.Println("unknown command", cmd)
	os.Exit(2)
}

func envOr(k, d string) string {
	if v := os.Getenv(k); v != "" {
		return v
	}
	return d
}
